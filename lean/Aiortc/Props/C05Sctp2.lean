import Aiortc.Lemmas.C05.V2App
import Aiortc.Lemmas.SctpNoCrashQuiet
/-!
# C05 (SCTP part, second layer): the receive path cannot be crashed from ANY state the application can reach

`Props/C05Sctp.lean` proves crash-freedom of `.rx` from the invariant `Inv`, which excludes (a) channels created
before they can get a stream id and (b) partially reliable traffic, and says nothing about the application inputs.
Here the invariant `Inv2 B e` (`Aiortc.Sctp.V2.WF`, see `Lemmas/C05/V2Inv.lean` and `notes/C05c.md`) has neither
restriction; it holds from `Ep.init` on (phase `Pre` before `start()`), is preserved by EVERY input under the API
preconditions stated below, and makes every datagram harmless (`rx_never_crashes2_proved`,
`reachable_rx_never_crashes_proved`).  One capacity hypothesis is left, and it is really needed:

* the budget `B` of `Inv2 B e`: there is a set `U` of streams for partially reliable user messages with
  `|U| + (number of armed application handlers) + B ≤ 16381` (a FORWARD-TSN chunk over more streams does not fit its
  16-bit length: `Chunk.inRange`, `4 + 4·n + 4 < 65536`). `channel.send()` and arming a handler each take one unit of
  `B`; a handler that fires inside an event (also inside `_handle_data`: `open`, `message`, `datachannel`, …) spends the
  unit reserved when it was armed. Nothing else is assumed about the handlers: any kind, any channel index.

The stream id capacity hypothesis `Cap` of the first version is gone: since the fix "close a data channel that cannot
get a stream id instead of using one beyond 65535" (modelled in `flushLoop`), a peer that occupies every stream id of
the local parity can no longer make `_data_channel_flush` queue a DATA chunk with stream id 65536.
-/
namespace Aiortc.Props.C05Sctp2
open Aiortc Aiortc.Gen Aiortc.Sctp Aiortc.Sctp.Wire
set_option linter.unusedSimpArgs false

/-- The invariant. -/
def Inv2 (B : Nat) (e : Ep) : Prop := V2.WFx B e ∧ Acc 0 e.rwnd e.inStreams ∧ SidOk e.inStreams

/-- From a weakest-precondition fact about a handler to the outputs of `step`. -/
theorem step_of_wp {e : Ep} {now : Int} {inp : Input} {A : String → Prop} {P : Ep → Prop}
    (hw : wp A (handle inp) (fun _ s' => P s'.1) ({ e with now := now }, [])) :
    (∀ k, Out.crash k ∈ (step e now inp).2 → A k) ∧
    ((∀ k, Out.crash k ∉ (step e now inp).2) → P (step e now inp).1) := by
  have hquiet := handle_quiet inp ({ e with now := now }, []) (by intro o ho; cases ho)
  unfold wp at hw
  cases hrun : (handle inp).run.run ({ e with now := now }, []) with
  | mk r s' =>
    obtain ⟨e', outs⟩ := s'
    rw [hrun] at hw hquiet
    cases r with
    | ok a =>
      have hst : step e now inp = (e', outs) := by simp only [step, hrun]
      rw [hst]
      exact ⟨fun k hk => absurd rfl (hquiet _ hk k), fun _ => hw⟩
    | error k =>
      have hst : step e now inp = (e', outs ++ [Out.crash k]) := by simp only [step, hrun]
      rw [hst]
      refine ⟨?_, ?_⟩
      · intro k' hk'
        rcases List.mem_append.mp hk' with hk' | hk'
        · exact absurd rfl (hquiet _ hk' k')
        · simp only [List.mem_singleton, Out.crash.injEq] at hk'; subst hk'; exact hw
      · intro hno
        exact absurd (List.mem_append.mpr (Or.inr (List.mem_singleton.mpr rfl))) (hno k)

/-- No exception escapes, and `P` holds afterwards. -/
theorem step_ok {e : Ep} {now : Int} {inp : Input} {P : Ep → Prop}
    (hw : wp NoExc (handle inp) (fun _ s' => P s'.1) ({ e with now := now }, [])) :
    (∀ k, Out.crash k ∉ (step e now inp).2) ∧ P (step e now inp).1 := by
  obtain ⟨h1, h2⟩ := step_of_wp hw
  have hno : ∀ k, Out.crash k ∉ (step e now inp).2 := fun k hk => h1 k hk
  exact ⟨hno, h2 hno⟩

theorem wf_now {B} {e : Ep} (h : V2.WFx B e) (now : Int) : V2.WFx B { e with now := now } :=
  h.map (fun _ h => ⟨h.net, h.ch, h.tx, h.rx, h.rcReq, h.rcResp, h.sack, h.ids, h.cap, h.tm1, h.tm2, h.tasks, h.rcr⟩) rfl

/-! ## the receive path -/

/-- The full statement: `Inv2` alone makes every datagram harmless, and is preserved. -/
def rx_never_crashes2 : Prop :=
  ∀ (B : Nat) (e : Ep) (d cookie : Bytes) (now : Int), Inv2 B e → IsBytes d → cookie.length ≤ 1000 →
    (∀ k, Out.crash k ∉ (step e now (.rx d cookie)).2) ∧ Inv2 B (step e now (.rx d cookie)).1

/-- NO byte string makes the receive path raise or hang — in any association state, with channels still waiting for
their stream id (also when the peer occupies every id of the local parity), with partially reliable messages queued,
abandoned or in flight — and the invariant holds again. -/
theorem rx_never_crashes2_proved : rx_never_crashes2 := by
  intro B e d cookie now h hd hc
  obtain ⟨hw, ha, hs⟩ := h
  refine step_ok (P := Inv2 B) ?_
  show wp NoExc (handleData d cookie) _ _
  refine V2.wp_handleData (wf_now hw now) ha hs hd hc ?_
  intro e' l' hw' ha' hs'
  exact ⟨hw', ha', hs'⟩

/-- `Out.crash "hang"` in particular. -/
theorem rx_no_hang2 (B : Nat) (e : Ep) (d cookie : Bytes) (now : Int)
    (h : Inv2 B e) (hd : IsBytes d) (hc : cookie.length ≤ 1000) :
    Out.crash "hang" ∉ (step e now (.rx d cookie)).2 :=
  (rx_never_crashes2_proved B e d cookie now h hd hc).1 _

/-! ## timers and queued tasks (no side condition left: what they need is part of the invariant) -/

/-- A timer that is armed (`asyncio` only calls back a handle that was started and not cancelled) neither raises nor
breaks the invariant. -/
theorem fire_preserves_inv2 (B : Nat) (e : Ep) (now : Int) (t : String) (h : Inv2 B e)
    (ht : t = "t1" ∧ e.t1 = true ∨ t = "t2" ∧ e.t2 = true ∨ t = "t3" ∨ t = "reconfig") :
    (∀ k, Out.crash k ∉ (step e now (.fire t)).2) ∧ Inv2 B (step e now (.fire t)).1 := by
  obtain ⟨hw, ha, hs⟩ := h
  have hw0 := wf_now hw now
  have post : ∀ (e' : Ep) (l' : List Out), V2.WFx B e' → e'.rwnd = e.rwnd → e'.inStreams = e.inStreams →
      (fun (_ : Unit) (s' : St) => Inv2 B s'.1) () (e', l') :=
    fun e' l' hw' hr hi => ⟨hw', ha.frame hr hi, hs.frame hi⟩
  refine step_ok (P := Inv2 B) ?_
  rcases ht with ⟨rfl, hc⟩ | ⟨rfl, hc⟩ | rfl | rfl
  · exact V2.wp_fire_t1 hw0 hc post
  · exact V2.wp_fire_t2 hw0 hc post
  · exact V2.wp_fire_t3 hw0 post
  · exact V2.wp_fire_reconfig hw0 post

theorem task_preserves_inv2 (B : Nat) (e : Ep) (now : Int) (h : Inv2 B e) :
    (∀ k, Out.crash k ∉ (step e now .task).2) ∧ Inv2 B (step e now .task).1 := by
  obtain ⟨hw, ha, hs⟩ := h
  refine step_ok (P := Inv2 B) ?_
  show wp NoExc runTask _ _
  refine V2.wp_runTask (wf_now hw now) ?_
  intro e' l' hw' hr hi
  exact ⟨hw', ha.frame hr hi, hs.frame hi⟩

/-! ## application inputs (after `start()`) -/

/-- `createDataChannel` with parameters the API can encode (`CreateOk`). -/
theorem create_preserves_inv2 (B : Nat) (e : Ep) (now : Int) (p : CreateParams)
    (h : Inv2 B e) (hp : V2.CreateOk p) :
    (∀ k, Out.crash k ∉ (step e now (.create p)).2) ∧ Inv2 B (step e now (.create p)).1 := by
  obtain ⟨hw, ha, hs⟩ := h
  refine step_ok (P := Inv2 B) ?_
  show wp NoExc (createChannel p) _ _
  refine V2.wp_create hp ?_
  intro e' l' hc
  rcases hc with rfl | ⟨c, hc⟩
  · exact ⟨wf_now hw now, ha, hs⟩
  · have hre : e'.reactions = ({ e with now := now } : Ep).reactions := by cases hc <;> rfl
    have hw' : V2.WFx B e' := (wf_now hw now).map (fun _ h => h.created hc) hre
    cases hc <;> exact ⟨hw', ha, hs⟩

/-- `channel.send` on an existing channel object (any channel: if it is partially reliable its stream joins the set
of streams a FORWARD-TSN may have to list): one unit of the budget. -/
theorem send_preserves_inv2 (B : Nat) (e : Ep) (now : Int) (i : Nat) (isStr : Bool) (data : Bytes)
    (h : Inv2 (B + 1) e) (hi : i < e.chans.length) :
    (∀ k, Out.crash k ∉ (step e now (.send i isStr data)).2) ∧ Inv2 B (step e now (.send i isStr data)).1 := by
  obtain ⟨hw, ha, hs⟩ := h
  refine step_ok (P := Inv2 B) ?_
  refine V2.wp_send (wf_now hw now) hi ?_
  intro e' l' hw' hr hin
  exact ⟨hw', ha.frame hr hin, hs.frame hin⟩

/-- The application arms a one-shot event handler that will call `channel.send(data)` from inside the event
(`open`, `close`, `bufferedamountlow`, `message` of channel `i`, or the transport's `datachannel` event) — ANY kind
and ANY channel index, also one that does not exist (yet): one unit of the budget. -/
theorem react_preserves_inv2 (B : Nat) (e : Ep) (now : Int) (k i : Nat) (isStr : Bool) (data : Bytes)
    (h : Inv2 (B + 1) e) :
    (∀ c, Out.crash c ∉ (step e now (.react k i isStr data)).2) ∧ Inv2 B (step e now (.react k i isStr data)).1 := by
  obtain ⟨hw, ha, hs⟩ := h
  refine step_ok (P := Inv2 B) ?_
  refine V2.wp_arm (wf_now hw now) ?_
  intro e' l' hw' hr hin
  exact ⟨hw', ha.frame hr hin, hs.frame hin⟩

/-- The budget is an upper bound: less is fine. -/
theorem Inv2.mono {B B' : Nat} {e : Ep} (h : Inv2 B e) (hb : B' ≤ B) : Inv2 B' e :=
  ⟨h.1.mono hb, h.2⟩

/-- `channel.close()` on an existing channel while the association is ESTABLISHED (the stream reset is queued).
In the other association states `_data_channels.pop(channel.id)` raises `KeyError` if the id is not registered any
more, and `Inv2` does not track which channel objects are registered: see `close_only_keyerror`. -/
theorem close_preserves_inv2_partial (B : Nat) (e : Ep) (now : Int) (i : Nat)
    (h : Inv2 B e) (hi : i < e.chans.length) (hk : e.assoc = .established) :
    (∀ k, Out.crash k ∉ (step e now (.close i)).2) ∧ Inv2 B (step e now (.close i)).1 := by
  obtain ⟨hw, ha, hs⟩ := h
  refine step_ok (P := Inv2 B) ?_
  refine V2.wp_close (wf_now hw now) hi (Or.inr hk) ?_
  intro e' l' hw' hr hin
  exact ⟨hw', ha.frame hr hin, hs.frame hin⟩

/-- `close()` in any association state: the only exception that can escape is that `KeyError`. -/
theorem close_only_keyerror (B : Nat) (e : Ep) (now : Int) (i : Nat)
    (h : Inv2 B e) (hi : i < e.chans.length) :
    (∀ k, Out.crash k ∈ (step e now (.close i)).2 → k = "KeyError") ∧
    ((∀ k, Out.crash k ∉ (step e now (.close i)).2) → Inv2 B (step e now (.close i)).1) := by
  obtain ⟨hw, ha, hs⟩ := h
  refine step_of_wp (A := fun k => k = "KeyError") (P := Inv2 B) ?_
  refine V2.wp_close (wf_now hw now) hi (Or.inl rfl) ?_
  intro e' l' hw' hr hin
  exact ⟨hw', ha.frame hr hin, hs.frame hin⟩

theorem threshold_preserves_inv2 (B : Nat) (e : Ep) (now : Int) (i : Nat) (v : Int)
    (h : Inv2 B e) (hi : i < e.chans.length) :
    (∀ k, Out.crash k ∉ (step e now (.threshold i v)).2) ∧ Inv2 B (step e now (.threshold i v)).1 := by
  obtain ⟨hw, ha, hs⟩ := h
  refine step_ok (P := Inv2 B) ?_
  refine V2.wp_threshold (wf_now hw now) hi ?_
  intro e' l' hw' hr hin
  exact ⟨hw', ha.frame hr hin, hs.frame hin⟩

theorem stop_preserves_inv2 (B : Nat) (e : Ep) (now : Int) (h : Inv2 B e) :
    (∀ k, Out.crash k ∉ (step e now .stop).2) ∧ Inv2 B (step e now .stop).1 := by
  obtain ⟨hw, ha, hs⟩ := h
  refine step_ok (P := Inv2 B) ?_
  refine V2.wp_stop (wf_now hw now) ?_
  intro e' l' hw' hr hin
  exact ⟨hw', ha.frame hr hin, hs.frame hin⟩

/-! ## before `start()`, and `start()` -/

theorem pre_now {B} {e : Ep} (h : V2.Pre B e) (now : Int) : V2.Pre B { e with now := now } :=
  ⟨h.ns, h.cl, h.t1, h.tk, wf_now h.wf now, h.acc, h.so⟩

/-- A fresh endpoint (32-bit tag and initial TSN) satisfies the pre-start invariant with any budget `B ≤ 16381`. -/
theorem pre_init (B : Nat) (hB : B ≤ 16381) (isServer : Bool) (tag tsn : Nat) (ht : tag < 4294967296)
    (hs : tsn < 4294967296) : V2.Pre B (Ep.init isServer tag tsn) := by
  refine ⟨rfl, rfl, rfl, by simp [Ep.init], ⟨[], by simp [Ep.init]; omega, ?_⟩,
    ⟨by simp [Ep.init, reasmBytes], by simp [Ep.init]⟩, by intro p hp; simp [Ep.init] at hp⟩
  refine ⟨⟨by simp [Ep.init, V2.startF], ⟨0, rfl, by decide⟩, by simp [Ep.init, V2.startF], ht,
      by simp [Ep.init, V2.startF, MAX_STREAMS], by simp [Ep.init, V2.startF, MAX_STREAMS]⟩,
    ⟨by simp [Ep.init, V2.startF], by simp [Ep.init, V2.startF], by simp [Ep.init, V2.startF],
     by simp [Ep.init, V2.startF], by simp [Ep.init, V2.startF], by simp [Ep.init, V2.startF],
     by simp [Ep.init, V2.startF], by simp [Ep.init, V2.startF], by simp [Ep.init, V2.startF]⟩,
    ⟨by simp [Ep.init, V2.startF], by simp [Ep.init, V2.startF], by simp [Ep.init, V2.startF, V2.Chain, wire],
     by simp [Ep.init, V2.startF, V2.LastE, wire], ⟨by simp [Ep.init, V2.startF], by simp [Ep.init, V2.startF]⟩,
     by simp [Ep.init, V2.startF], by simp [Ep.init, V2.startF], by simp [Ep.init, V2.startF], ?_⟩,
    ⟨by simp [Ep.init, V2.startF]⟩, ?_, ?_, by simp [Ep.init, V2.startF],
    ⟨_, rfl, by split <;> omega⟩, by simp, by simp [Ep.init, V2.startF], by simp [Ep.init, V2.startF],
    by simp [Ep.init, V2.startF], by simp [Ep.init, V2.startF]⟩
  · simp only [Ep.init, V2.startF]; omega
  · simp only [Ep.init, V2.startF, InRange32]; omega
  · simp only [Ep.init, V2.startF, InRange32]; omega

/-- `createDataChannel` before `start()` (what `RTCPeerConnection.createDataChannel` does first). -/
theorem create_preserves_pre (B : Nat) (e : Ep) (now : Int) (p : CreateParams)
    (h : V2.Pre B e) (hp : V2.CreateOk p) :
    (∀ k, Out.crash k ∉ (step e now (.create p)).2) ∧ V2.Pre B (step e now (.create p)).1 := by
  refine step_ok (P := V2.Pre B) ?_
  show wp NoExc (createChannel p) _ _
  refine V2.wp_create hp ?_
  intro e' l' hc
  rcases hc with rfl | ⟨c, hc⟩
  · exact pre_now h now
  · exact (pre_now h now).created hc

/-- Arming a handler before `start()`. -/
theorem react_preserves_pre (B : Nat) (e : Ep) (now : Int) (k i : Nat) (isStr : Bool) (data : Bytes)
    (h : V2.Pre (B + 1) e) :
    (∀ c, Out.crash c ∉ (step e now (.react k i isStr data)).2) ∧ V2.Pre B (step e now (.react k i isStr data)).1 := by
  refine step_ok (P := V2.Pre B) ?_
  have h' := pre_now h now
  obtain ⟨U, hb, hw⟩ := id h'.wf
  simp only [handle, wp_modE]
  refine ⟨h'.ns, h'.cl, h'.t1, h'.tk, ⟨U, ?_, hw.setReactions _⟩, h'.acc, h'.so⟩
  simp only [List.length_append, List.length_singleton]
  simp only [V2.startF] at hb
  omega

/-- The `_data_channel_flush` task queued by it does nothing before the association is established. -/
theorem task_preserves_pre (B : Nat) (e : Ep) (now : Int) (h : V2.Pre B e) :
    (∀ k, Out.crash k ∉ (step e now .task).2) ∧ V2.Pre B (step e now .task).1 := by
  refine step_ok (P := V2.Pre B) ?_
  show wp NoExc runTask _ _
  exact V2.wp_runTask_pre (pre_now h now) (fun e' l' h' => h')

/-- `start()` with a 16-bit remote port establishes the invariant (the client sends its INIT without raising). -/
theorem start_establishes_inv2 (B : Nat) (e : Ep) (now : Int) (rp : Nat) (h : V2.Pre B e)
    (hr : rp < 65536) :
    (∀ k, Out.crash k ∉ (step e now (.start rp)).2) ∧ Inv2 B (step e now (.start rp)).1 := by
  refine step_ok (P := Inv2 B) ?_
  refine V2.wp_start (pre_now h now) hr ?_
  intro e' l' hw' hr' hin
  exact ⟨hw', h.acc.frame hr' hin, h.so.frame hin⟩

theorem Pre.mono {B B' : Nat} {e : Ep} (h : V2.Pre B e) (hb : B' ≤ B) : V2.Pre B' e :=
  ⟨h.ns, h.cl, h.t1, h.tk, h.wf.mono hb, h.acc, h.so⟩

/-! ## arbitrary input sequences from `Ep.init` -/

/-- States reachable before `start()`: a fresh endpoint, `createDataChannel` calls, the tasks they queue, and arming
event handlers. `B` is the budget left: how many more times the application may arm a handler or call `send()`
(each may put a partially reliable message on one more stream; a FORWARD-TSN can list 16381 streams).
(`C e k` was the stream id capacity side condition of the first version; nothing depends on it, the goal uses `True`.) -/
inductive Before (C : Ep → Nat → Prop) : Nat → Ep → Prop
  | init (B : Nat) (isServer : Bool) (tag tsn : Nat) : B ≤ 16381 → tag < 4294967296 → tsn < 4294967296 →
      Before C B (Ep.init isServer tag tsn)
  | create {B : Nat} {e : Ep} (now : Int) (p : CreateParams) : Before C B e → V2.CreateOk p → C e 12 →
      Before C B (step e now (.create p)).1
  | react {B : Nat} {e : Ep} (now : Int) (k i : Nat) (isStr : Bool) (data : Bytes) : Before C (B + 1) e →
      Before C B (step e now (.react k i isStr data)).1
  | task {B : Nat} {e : Ep} (now : Int) : Before C B e → Before C B (step e now .task).1

/-- States reachable after `start()` by ANY sequence of inputs: datagrams of bytes (with a cookie of ≤ 1000 bytes for
the INIT-ACK), expiries of armed timers, queued tasks, and the application calls under the preconditions of the API:
`createDataChannel` with encodable parameters, `send` / `close` / `bufferedAmountLowThreshold` on existing channel
objects, `close()` while established, arming ANY event handler that re-enters `send()`; `send` and arming a handler
each take one unit of the budget `B`. -/
inductive Reach (C : Ep → Nat → Prop) : Nat → Ep → Prop
  | start {B : Nat} {e : Ep} (now : Int) (rp : Nat) : Before C B e → rp < 65536 → Reach C B (step e now (.start rp)).1
  | rx {B : Nat} {e : Ep} (now : Int) (d cookie : Bytes) : Reach C B e → IsBytes d → cookie.length ≤ 1000 →
      C e (V2.dgramDataBytes d) → Reach C B (step e now (.rx d cookie)).1
  | fire {B : Nat} {e : Ep} (now : Int) (t : String) : Reach C B e →
      (t = "t1" ∧ e.t1 = true ∨ t = "t2" ∧ e.t2 = true ∨ t = "t3" ∨ t = "reconfig") →
      Reach C B (step e now (.fire t)).1
  | task {B : Nat} {e : Ep} (now : Int) : Reach C B e → Reach C B (step e now .task).1
  | create {B : Nat} {e : Ep} (now : Int) (p : CreateParams) : Reach C B e → V2.CreateOk p → C e 12 →
      Reach C B (step e now (.create p)).1
  | send {B : Nat} {e : Ep} (now : Int) (i : Nat) (isStr : Bool) (data : Bytes) : Reach C (B + 1) e →
      i < e.chans.length → Reach C B (step e now (.send i isStr data)).1
  | react {B : Nat} {e : Ep} (now : Int) (k i : Nat) (isStr : Bool) (data : Bytes) : Reach C (B + 1) e →
      Reach C B (step e now (.react k i isStr data)).1
  | close {B : Nat} {e : Ep} (now : Int) (i : Nat) : Reach C B e → i < e.chans.length → e.assoc = .established →
      Reach C B (step e now (.close i)).1
  | threshold {B : Nat} {e : Ep} (now : Int) (i : Nat) (v : Int) : Reach C B e → i < e.chans.length →
      Reach C B (step e now (.threshold i v)).1
  | stop {B : Nat} {e : Ep} (now : Int) : Reach C B e → Reach C B (step e now .stop).1

theorem before_pre (C : Ep → Nat → Prop) {B : Nat} {e : Ep} (h : Before C B e) : V2.Pre B e := by
  induction h with
  | init B isServer tag tsn hB ht hs => exact pre_init B hB isServer tag tsn ht hs
  | create now p _ hp _ ih => exact (create_preserves_pre _ _ now p ih hp).2
  | react now k i isStr data _ ih => exact (react_preserves_pre _ _ now k i isStr data ih).2
  | task now _ ih => exact (task_preserves_pre _ _ now ih).2

/-- The invariant holds in every reachable state. -/
theorem reach_inv2 (C : Ep → Nat → Prop) {B : Nat} {e : Ep} (h : Reach C B e) : Inv2 B e := by
  induction h with
  | start now rp hb hr => exact (start_establishes_inv2 _ _ now rp (before_pre C hb) hr).2
  | rx now d cookie _ hd hc _ ih => exact (rx_never_crashes2_proved _ _ d cookie now ih hd hc).2
  | fire now t _ ht ih => exact (fire_preserves_inv2 _ _ now t ih ht).2
  | task now _ ih => exact (task_preserves_inv2 _ _ now ih).2
  | create now p _ hp _ ih => exact (create_preserves_inv2 _ _ now p ih hp).2
  | send now i isStr data _ hi ih => exact (send_preserves_inv2 _ _ now i isStr data ih hi).2
  | react now k i isStr data _ ih => exact (react_preserves_inv2 _ _ now k i isStr data ih).2
  | close now i _ hi hk ih => exact (close_preserves_inv2_partial _ _ now i ih hi hk).2
  | threshold now i v _ hi ih => exact (threshold_preserves_inv2 _ _ now i v ih hi).2
  | stop now _ ih => exact (stop_preserves_inv2 _ _ now ih).2

/-- The goal: no state reachable from `Ep.init` — with any event handlers armed — can be crashed by a datagram. -/
def reachable_rx_never_crashes : Prop :=
  ∀ (B : Nat) (e : Ep), Reach (fun _ _ => True) B e →
    ∀ (d cookie : Bytes) (now : Int), IsBytes d → cookie.length ≤ 1000 →
      ∀ k, Out.crash k ∉ (step e now (.rx d cookie)).2

/-- Along every run (inputs under the API preconditions of `Reach`) no input raises inside the transport, and no
byte string can crash or hang the receive path of the state reached. -/
theorem reachable_rx_never_crashes_proved : reachable_rx_never_crashes :=
  fun B e h d cookie now hd hc =>
    (rx_never_crashes2_proved B e d cookie now (reach_inv2 _ h) hd hc).1

/-! ## constants, and the hypotheses are satisfiable -/

/-- 16381 is exactly the largest stream count a FORWARD-TSN chunk can carry. -/
theorem forward_tsn_capacity (streams : List (Nat × Nat)) (h : pairsInRange streams = true) :
    (Chunk.forwardTsn 0 0 streams).inRange = true ↔ streams.length ≤ 16381 := by
  simp only [Chunk.inRange, h, Bool.and_true, Bool.and_eq_true, decide_eq_true_eq]
  omega

/-- A started client with a partially reliable channel created before `start()` (still waiting for its stream id) and
two armed handlers (a `datachannel` handler, and an `open` handler for a channel that does not exist) is reachable and
satisfies the invariant. -/
example : ∃ e, Reach (fun _ _ => True) 100 e ∧ Inv2 100 e ∧ (e.chans.map (·.id)) = [none] ∧ e.reactions.length = 2 := by
  let p : CreateParams := { label := [99], protocol := [], ordered := true, maxRetransmits := some 0,
                            maxPacketLifeTime := none, negotiated := false, id := none }
  have hp : V2.CreateOk p := by
    refine ⟨by decide, by decide, ?_, ?_, ?_⟩
    · intro r hr; cases hr; decide
    · intro r hr; cases hr
    · intro v hv; cases hv
  have hb0 : Before (fun _ _ => True) 102 (Ep.init false 222 5000) :=
    .init 102 false 222 5000 (by decide) (by decide) (by decide)
  have hb1 := Before.create (C := fun _ _ => True) 1024000 p hb0 hp trivial
  have hb2 := Before.react (C := fun _ _ => True) 1024000 4 0 true [104, 105] hb1
  have hr := Reach.start (C := fun _ _ => True) 1024000 5000 hb2 (by decide)
  have hr2 := Reach.react (C := fun _ _ => True) 1024000 0 7 false [1] hr
  exact ⟨_, hr2, reach_inv2 _ hr2, by decide +kernel, by decide +kernel⟩

end Aiortc.Props.C05Sctp2
