import Aiortc.Model.Sctp.Endpoint
import Aiortc.Model.Sctp.Forward
import Aiortc.Lemmas.C06.SctpRuns
import Aiortc.Lemmas.C06.SctpAbandon
import Aiortc.Lemmas.C06.SctpAbandonWire
import Aiortc.Lemmas.C06.SctpPopTotal
import Aiortc.Lemmas.C06.SctpAdvAck
import Aiortc.Lemmas.C06.SctpPop
import Aiortc.Lemmas.C06.SctpPopComplete
import Aiortc.Lemmas.C06.SctpUniverse
import Aiortc.Lemmas.C06.SctpSend
import Aiortc.Lemmas.C06.SctpIntegrity
import Aiortc.Lemmas.C06.SctpRxIntegrity
import Aiortc.Lemmas.C06.SctpForward
import Aiortc.Lemmas.C06.SctpRecover
import Aiortc.Props.C17
/-!
# C06 — partially reliable channels drop only whole messages and never disturb others

All theorems are about the executable model of `rtcsctptransport.py` in `Model/Sctp/{Inbound,Outbound}.lean`
(the functions the endpoint automaton `Endpoint.step` is built from, replayed against two real endpoints by
`./check C06`) and about `Model/Sctp/Forward.lean` (pure restatement of the stream part of
`_receive_forward_tsn_chunk`, tied to the real method by the `fwd` component of the check).
They hold for ALL queues / histories / arrival lists (induction, no enumeration).

Sender: (a) `abandon_whole_message*`, `abandon_flight*`, `abandon_noop`, `reliable_never_abandoned`,
            `abandon_never_alters_queue`;
        (b) `adv_ack_only_over_abandoned`, `forward_tsn_streams`, `forward_tsn_pending`, `forward_tsn_sent_first`.
Receiver: (c) `prune_rule`, `prune_runs`, `prune_keeps_complete`;
        (d) `reliable_unaffected`, `forward_tsn_unlisted_stream`, `forward_tsn_seq_not_backwards`;
        (e) `pr_integrity`, `pr_integrity_arrivals`, `pop_sound`, `pop_total`, `send_fragments_are_messages`;
        (f) `pr_recovers_partial`.
What is NOT proved is kept as `def … : Prop` (`pr_delivery_full`, `pr_recovers_full`) with the gap spelled out.
-/
namespace Aiortc.Props.C06
open Aiortc.Gen Aiortc.Sctp

/-! ## constants the statements depend on (a mutated constant breaks the build) -/

theorem userdata_max_const : Aiortc.Gen.USERDATA_MAX_LENGTH = 1200 := by decide
theorem flag_consts : SCTP_DATA_LAST_FRAG = 1 ∧ SCTP_DATA_FIRST_FRAG = 2 ∧ SCTP_DATA_UNORDERED = 4 := by decide
set_option maxRecDepth 100000 in
/-- the arithmetic bit tests of the model are the masks of the code on every flags byte. -/
theorem flag_tests : ∀ f : Fin 256,
    flagE f.val = (f.val &&& SCTP_DATA_LAST_FRAG != 0) ∧ flagB f.val = (f.val &&& SCTP_DATA_FIRST_FRAG != 0) ∧
    flagU f.val = (f.val &&& SCTP_DATA_UNORDERED != 0) := by decide

/-! ## (a) `_maybe_abandon` abandons exactly one whole message -/

/-- **abandon_whole_message** (E fragment already sent).  The sent queue is `pre ++ m ++ post` where
`m = a ++ x :: b` are the fragments of ONE message (B flag on the first and only the first, E flag on the
last and only the last) and `x` — at position `|pre| + |a|` — is a not-yet-abandoned fragment whose
retransmit limit / lifetime is exceeded.  Then `_maybe_abandon(x)` returns `True`, marks exactly the
fragments of `m` (`abandoned = True`, `retransmit = False`, out of flight), takes exactly their in-flight
bytes out of `_flight_size`, and changes nothing else: `pre`, `post`, the outbound queue and every other
field of the transport are untouched. -/
theorem abandon_whole_message (t : Tx) (pre a b post : List SChunk) (x : SChunk) (now : Int)
    (hq : t.sentQ = pre ++ (a ++ x :: b) ++ post) (hm : IsMsg (a ++ x :: b))
    (hx : x.abandoned = false) (hs : shouldAbandon x now = true) :
    t.maybeAbandon (pre.length + a.length) now =
      (true, { t with flight := t.flight - inflightBytes (a ++ x :: b),
                      sentQ := pre ++ (a ++ x :: b).map abSent ++ post }) := by
  have hB : FirstOnlyB (a ++ [x]) :=
    firstOnlyB_prefix (a ++ [x]) b (by simpa using hm.1) (by simp)
  have hE : LastOnlyE (x :: b) := (lastOnlyE_split a (x :: b) hm.2 (by simp)).2
  exact maybeAbandon_sent t pre a b post x now hq hx hs hB hE

/-- **abandon_whole_message**, message larger than the window: only the part `a ++ x :: b` of the message has
been sent (it is the tail of the sent queue), the rest `u` is the head of the outbound queue.  The unsent
remainder is moved to the sent queue, abandoned, so that the advanced ack point and the FORWARD TSN step
over the whole message and no orphan fragment is ever transmitted. -/
theorem abandon_whole_message_unsent (t : Tx) (pre a b u rest : List SChunk) (x : SChunk) (now : Int)
    (hq : t.sentQ = pre ++ (a ++ x :: b)) (ho : t.outQ = u ++ rest) (hu : u ≠ [])
    (hm : IsMsg ((a ++ x :: b) ++ u))
    (hx : x.abandoned = false) (hs : shouldAbandon x now = true) :
    t.maybeAbandon (pre.length + a.length) now =
      (true, { t with flight := t.flight - inflightBytes (a ++ x :: b),
                      sentQ := pre ++ (a ++ x :: b).map abSent ++ u.map abUnsent,
                      outQ := rest }) := by
  have hB : FirstOnlyB (a ++ [x]) :=
    firstOnlyB_prefix (a ++ [x]) (b ++ u) (by simpa using hm.1) (by simp)
  have hsplit := lastOnlyE_split (a ++ x :: b) u hm.2 hu
  have hE : NoE (x :: b) := noE_suffix a (x :: b) hsplit.1
  exact maybeAbandon_unsent t pre a b u rest x now hq ho hx hs hB hE hsplit.2

/-- nothing happens when the chunk is already abandoned or has no reason to be. -/
theorem abandon_noop (t : Tx) (pos : Nat) (now : Int) (c : SChunk) (hc : t.sentQ[pos]? = some c) :
    (c.abandoned = true → t.maybeAbandon pos now = (true, t)) ∧
    (c.abandoned = false → shouldAbandon c now = false → t.maybeAbandon pos now = (false, t)) := by
  constructor
  · intro h; simp [Tx.maybeAbandon, hc, h]
  · intro h1 h2; simp [Tx.maybeAbandon, hc, h1, h2]

/-- fragments of reliable channels are never a reason to abandon anything. -/
theorem reliable_never_abandoned (t : Tx) (pos : Nat) (now : Int) (c : SChunk) (hc : t.sentQ[pos]? = some c)
    (h0 : c.abandoned = false) (h1 : c.maxRetransmits = none) (h2 : c.expiry = none) :
    t.maybeAbandon pos now = (false, t) :=
  (abandon_noop t pos now c hc).2 h0 (shouldAbandon_reliable c now h1 h2)

/-- flight accounting is preserved (both cases): `_flight_size` stays the sum over the sent queue. -/
theorem abandon_flight (t : Tx) (pre a b post : List SChunk) (x : SChunk) (now : Int)
    (hq : t.sentQ = pre ++ (a ++ x :: b) ++ post) (hm : IsMsg (a ++ x :: b))
    (hx : x.abandoned = false) (hs : shouldAbandon x now = true) (hf : FlightOk t) :
    FlightOk (t.maybeAbandon (pre.length + a.length) now).2 := by
  rw [abandon_whole_message t pre a b post x now hq hm hx hs]
  refine ⟨?_, hf.2⟩
  have := hf.1
  simp only [hq, inflightBytes_append, inflightBytes_map_abSent] at this ⊢
  omega

theorem abandon_flight_unsent (t : Tx) (pre a b u rest : List SChunk) (x : SChunk) (now : Int)
    (hq : t.sentQ = pre ++ (a ++ x :: b)) (ho : t.outQ = u ++ rest) (hu : u ≠ [])
    (hm : IsMsg ((a ++ x :: b) ++ u))
    (hx : x.abandoned = false) (hs : shouldAbandon x now = true) (hf : FlightOk t) :
    FlightOk (t.maybeAbandon (pre.length + a.length) now).2 := by
  rw [abandon_whole_message_unsent t pre a b u rest x now hq ho hu hm hx hs]
  have hout : ∀ c ∈ u, c.inFlight = false := fun c hc => hf.2 c (by simp [ho, hc])
  refine ⟨?_, fun c hc => hf.2 c (by simp [ho, hc])⟩
  have := hf.1
  simp only [hq, inflightBytes_append, inflightBytes_map_abSent, inflightBytes_map_abUnsent u hout] at this ⊢
  omega

/-- what goes on the wire (TSN, stream, ssn, ppid, flags, payload) is never altered by abandoning. -/
theorem abandon_keeps_wire (c : SChunk) : (abSent c).toR = c.toR ∧ (abUnsent c).toR = c.toR := ⟨rfl, rfl⟩

/-- **Unconditional** (any queues, any position, well-formed or not): `_maybe_abandon` never loses,
duplicates, reorders or alters a chunk of any channel — the concatenation sent queue ++ outbound queue, as the
peer sees it, is exactly what it was; only the boundary between the two queues may move forward. -/
theorem abandon_never_alters_queue (t : Tx) (pos : Nat) (now : Int) :
    wire (t.maybeAbandon pos now).2.sentQ ++ wire (t.maybeAbandon pos now).2.outQ = wire t.sentQ ++ wire t.outQ ∧
    t.sentQ.length ≤ (t.maybeAbandon pos now).2.sentQ.length := maybeAbandon_wire t pos now

/-- the hypothesis `IsMsg` is what `_send` produces for every non-empty message. -/
theorem send_fragments_are_messages (t : Tx) (r : SendReq) (h : reqFrags t r ≠ []) :
    IsMsg (reqFrags t r) ∧ (reqFrags t r).flatMap (·.data) = r.data ∧
    (t.enqueueReq r).outQ = t.outQ ++ reqFrags t r ∧
    TsnSeq t.localTsn ((reqFrags t r).map SChunk.toR) :=
  ⟨reqFrags_isMsg t r h, reqFrags_data t r, rfl, reqFrags_tsn t r⟩

/-! non-vacuity: a 3-fragment message of a `maxRetransmits = 0` channel, two fragments sent, one unsent -/
private def f1 : SChunk := { tsn := 10, sid := 1, ssn := 0, ppid := 53, flags := 2, data := [1], bookSize := 1,
                             maxRetransmits := some 0, sentCount := 1, inFlight := true }
private def f2 : SChunk := { f1 with tsn := 11, flags := 0, data := [2] }
private def f3 : SChunk := { f1 with tsn := 12, flags := 1, data := [3], sentCount := 0, inFlight := false }
private def tx0 : Tx := { cwnd := 2, ssthresh := 0, localTsn := 13, lastSacked := 9, advAck := 9,
                          flight := 2, sentQ := [f1, f2], outQ := [f3] }
example : IsMsg ([f1, f2] ++ [f3]) ∧ shouldAbandon f2 0 = true ∧ FlightOk tx0 := by
  refine ⟨⟨⟨by decide, ?_⟩, (show flagE f1.flags = false by decide), (show flagE f2.flags = false by decide),
    (show flagE f3.flags = true by decide)⟩, by decide, by decide, ?_⟩
  · intro c hc
    have hc' : c = f2 ∨ c = f3 := by simpa using hc
    rcases hc' with rfl | rfl <;> decide
  · intro c hc
    have hc' : c = f3 := by simpa [tx0] using hc
    subst hc'; decide
example : (tx0.maybeAbandon 1 0).2.sentQ = [abSent f1, abSent f2, abUnsent f3] ∧ (tx0.maybeAbandon 1 0).2.outQ = []
    ∧ (tx0.maybeAbandon 1 0).2.flight = 0 := by decide

/-! ## (b) the advanced peer ack point only moves over abandoned chunks -/

theorem mem_takeWhile_true {α} (p : α → Bool) (l : List α) : ∀ c ∈ l.takeWhile p, p c = true := by
  induction l with
  | nil => simp
  | cons a l ih =>
    intro c hc
    rw [List.takeWhile_cons] at hc
    split at hc
    · rcases List.mem_cons.1 hc with rfl | hc
      · assumption
      · exact ih c hc
    · simp at hc

/-- **adv_ack_only_over_abandoned**.  `_update_advanced_peer_ack_point` pops exactly the maximal abandoned
prefix of the sent queue (nothing that is not abandoned, nothing behind a chunk that is not abandoned);
`advAck` ends at the TSN of the last popped chunk, or stays (catching up with `lastSacked`) when nothing
is popped. -/
theorem adv_ack_only_over_abandoned (t : Tx) :
    let popped := t.sentQ.takeWhile (·.abandoned)
    let t' := t.updateAdvAck
    t.sentQ = popped ++ t'.sentQ ∧ (∀ c ∈ popped, c.abandoned = true) ∧
    (∀ c ∈ t'.sentQ.head?, c.abandoned = false) ∧
    t'.advAck = ((popped.getLast?.map (·.tsn)).getD
                  (if uint32_gte t.lastSacked t.advAck then t.lastSacked else t.advAck)) ∧
    t'.outQ = t.outQ ∧ t'.flight = t.flight ∧ t'.lastSacked = t.lastSacked := by
  simp only [updateAdvAck_eq]
  refine ⟨(List.takeWhile_append_dropWhile).symm, ?_, ?_, trivial, trivial, trivial, trivial⟩
  · intro c hc; exact mem_takeWhile_true _ _ c hc
  · intro c hc
    have := List.head?_dropWhile_not (fun c : SChunk => c.abandoned) t.sentQ
    simp only [Option.mem_def] at hc
    rw [hc] at this
    simpa using this

/-- **FORWARD TSN contents**: the chunk built carries the new `advAck` and, for every ordered stream, the
ssn of the LAST popped chunk of that stream (streams without a popped ordered chunk keep the entry of the
FORWARD TSN still pending, if any). -/
theorem forward_tsn_streams (t : Tx) (sid : Nat) :
    let popped := t.sentQ.takeWhile (·.abandoned)
    let t' := t.updateAdvAck
    (t'.forwardNeeded = true → t'.forwardTsn = some (t'.advAck, t'.forwardStreams)) ∧
    dictGet t'.forwardStreams sid =
      match lastOrdered popped sid with
      | some c => some c.ssn
      | none => dictGet (if uint32_gte t.lastSacked t.advAck then [] else t.forwardStreams) sid := by
  simp only [updateAdvAck_eq]
  refine ⟨?_, foldl_fwdNote_get _ _ sid⟩
  intro h; simp only [h, ↓reduceIte]

/-- **A FORWARD TSN stays pending exactly until `lastSacked` catches up**: it is needed after the call iff
something was popped now, or it was needed before and the peer's cumulative ack has not reached `advAck`;
whenever it is needed it is (re-)armed, so that the next `_transmit` sends it again. -/
theorem forward_tsn_pending (t : Tx) :
    let popped := t.sentQ.takeWhile (·.abandoned)
    let t' := t.updateAdvAck
    (t'.forwardNeeded = true ↔
      (popped ≠ [] ∨ (t.forwardNeeded = true ∧ uint32_gte t.lastSacked t.advAck = false))) ∧
    (t'.forwardNeeded = true → t'.forwardTsn.isSome = true) ∧
    (t'.forwardNeeded = false → t'.forwardTsn = t.forwardTsn) := by
  simp only [updateAdvAck_eq]
  refine ⟨?_, ?_, ?_⟩
  · cases h : uint32_gte t.lastSacked t.advAck <;> cases hn : t.forwardNeeded <;>
      cases hp : t.sentQ.takeWhile (·.abandoned) <;> simp
  · intro h; simp only [h, ↓reduceIte, Option.isSome_some]
  · intro h; simp only [h, Bool.false_eq_true, ↓reduceIte]

/-- `_transmit` sends a pending FORWARD TSN before anything else and clears it. -/
theorem forward_tsn_sent_first (t : Tx) :
    ∃ rest, (t.transmit).2 =
        (match t.forwardTsn with | some (cum, streams) => [TxEv.fwd cum streams] | none => []) ++ rest
      ∧ (t.transmit).1.forwardTsn = none := transmit_fwd t

private def tx1 : Tx := { tx0 with sentQ := [abSent f1, abSent f2, abUnsent f3], outQ := [], flight := 0 }
example : tx1.updateAdvAck.advAck = 12 ∧ tx1.updateAdvAck.sentQ = [] ∧
    tx1.updateAdvAck.forwardTsn = some (12, [(1, 0)]) := by decide
example : ({ tx1.updateAdvAck with forwardTsn := none }).updateAdvAck.forwardTsn = some (12, [(1, 0)]) := by decide
example : ({ tx1.updateAdvAck with forwardTsn := none, lastSacked := 12 }).updateAdvAck.forwardTsn = none := by
  decide

/-! ## (c) what `prune_chunks` removes -/

/-- **prune_rule**.  Cut the reassembly queue into its maximal runs (`runsOf`: fragments that follow each
other with consecutive TSNs, no E fragment inside, no B fragment inside).  `prune_chunks(tsn)` removes
exactly the runs that lack a fragment with TSN ≤ `tsn` (`runDead`: no B fragment at the front and the TSN
just before it is ≤ `tsn`, or no E fragment at the end and the TSN just after it is ≤ `tsn`), keeps all
other runs in order, leaves the expected sequence number alone and returns exactly the bytes it removed. -/
theorem prune_rule (s : InStream) (tsn : Int) :
    let kept := (runsOf s.reasm).filter (fun g => !runDead tsn g)
    let dead := (runsOf s.reasm).filter (runDead tsn)
    (s.pruneChunks tsn).1.reasm = kept.flatten ∧
    (s.pruneChunks tsn).2 = (dead.map bytesOf).sum ∧
    (s.pruneChunks tsn).1.seq = s.seq ∧
    bytesOf (s.pruneChunks tsn).1.reasm + (s.pruneChunks tsn).2 = bytesOf s.reasm ∧
    (s.pruneChunks tsn).1.reasm.Sublist s.reasm := by
  refine ⟨?_, ?_, ?_, ?_, pruneChunks_sublist s tsn⟩
  · rw [pruneChunks_eq]
  · rw [pruneChunks_eq]
  · rw [pruneChunks_eq]
  · rw [pruneChunks_eq]
    have := filter_bytes_split (runDead tsn) (runsOf s.reasm)
    rw [runsOf_flatten] at this
    exact this

/-- the runs are what the docstring says: they partition the queue, each is a non-empty chain of joining
fragments, and neighbouring runs do not join (maximality). -/
theorem prune_runs (l : List RChunk) :
    (runsOf l).flatten = l ∧ (∀ g ∈ runsOf l, ∃ c r, g = c :: r ∧ Chained c r) ∧ AdjOk (runsOf l) :=
  ⟨runsOf_flatten l, runsOf_chained l, runsOf_adjOk l⟩

/-- complete runs (B … E) are never removed, whatever `tsn`; a run is removed only for a missing fragment
whose TSN is covered by `tsn`. -/
theorem prune_keeps_complete (tsn : Int) (first : RChunk) (run : List RChunk) :
    (flagB first.flags = true → flagE (runLast first run).flags = true → runDead tsn (first :: run) = false) ∧
    (runDead tsn (first :: run) = true ↔
      ((flagB first.flags = false ∧ uint32_gte tsn (tsn_minus_one first.tsn) = true) ∨
       (flagE (runLast first run).flags = false ∧ uint32_gte tsn (tsn_plus_one (runLast first run).tsn) = true))) := by
  constructor
  · intro h1 h2; simp [runDead, h1, h2]
  · simp [runDead]

private def r1 : RChunk := { tsn := 5, sid := 1, ssn := 0, ppid := 53, flags := 0, data := [1, 2] }   -- middle
private def r2 : RChunk := { tsn := 8, sid := 1, ssn := 1, ppid := 53, flags := 3, data := [3] }      -- B+E
private def r3 : RChunk := { tsn := 9, sid := 1, ssn := 2, ppid := 53, flags := 2, data := [4] }      -- B, no E
example : (({ reasm := [r1, r2, r3], seq := 0 } : InStream).pruneChunks 4).1.reasm = [r2, r3] ∧
    (({ reasm := [r1, r2, r3], seq := 0 } : InStream).pruneChunks 4).2 = 2 := by decide
example : (({ reasm := [r1, r2, r3], seq := 0 } : InStream).pruneChunks 3).1.reasm = [r1, r2, r3] := by decide
example : (({ reasm := [r1, r2, r3], seq := 0 } : InStream).pruneChunks 10).1.reasm = [r2] := by decide

/-! ## (d) non-interference: a FORWARD TSN leaves other streams alone -/

/-- **reliable_unaffected**.  If no run of a stream's reassembly queue is waiting for a fragment with
TSN ≤ `cum` — true for the streams of reliable channels, whose fragments the sender never abandons
(`reliable_never_abandoned`), so that `cum` only covers fragments of theirs that were acknowledged, i.e.
received — then `prune_chunks(cum)` is the identity on that stream and frees nothing. -/
theorem reliable_unaffected (s : InStream) (cum : Int) (h : NotWaiting cum s) :
    s.pruneChunks cum = (s, 0) := pruneChunks_id s cum h

/-- The stream part of `_receive_forward_tsn_chunk`: a stream that the FORWARD TSN does not list is only
pruned; nothing is popped from it, its expected sequence number does not change, and if it is
`NotWaiting` (reliable streams) it is left exactly as it was, whatever happens on the listed streams. -/
theorem forward_tsn_unlisted_stream (cum : Int) (streams : List (Nat × Int)) (ins ins' : List (Nat × InStream))
    (freed : Nat) (msgs : List Msg) (h : fwdStreams cum streams ins = .ok (ins', freed, msgs))
    (sid : Nat) (hne : ∀ p ∈ streams, p.1 ≠ sid) :
    dictGet ins' sid = (dictGet ins sid).map (fun s => (s.pruneChunks cum).1) ∧
    (∀ s, dictGet ins sid = some s → NotWaiting cum s → dictGet ins' sid = some s) := by
  have h1 := fwdStreams_unlisted cum streams ins ins' freed msgs h sid hne
  refine ⟨h1, ?_⟩
  intro s hs hw
  rw [h1, hs, Option.map_some, reliable_unaffected s cum hw]

/-- a listed stream's expected sequence number never moves backwards (the `uint16_gt` guard), and is
otherwise set to the sequence number after the skipped one. -/
theorem forward_tsn_seq_not_backwards (s : InStream) (sseq : Int) :
    uint16_gt s.seq (fwdGuard s sseq).seq = false ∧
    ((fwdGuard s sseq).seq = s.seq ∨ (fwdGuard s sseq).seq = uint16_add sseq 1) ∧
    (fwdGuard s sseq).reasm = s.reasm := by
  unfold fwdGuard
  by_cases h : uint16_gt (uint16_add sseq 1) s.seq = true
  · simp only [h, ↓reduceIte]
    exact ⟨Aiortc.Props.C17.uint16_gt_asymm _ _ h, Or.inr trivial, trivial⟩
  · simp only [h, Bool.false_eq_true, ↓reduceIte]
    exact ⟨Aiortc.Props.C17.uint16_gt_irrefl _, Or.inl trivial, trivial⟩

example : NotWaiting 4 ({ reasm := [r2, r3], seq := 0 } : InStream) := by
  intro g hg
  have : runsOf [r2, r3] = [[r2], [r3]] := by
    rw [runsOf]
    have h1 : takeRun r2 [r3] = ([], [r3]) := by decide
    rw [h1, runsOf]
    have h2 : takeRun r3 [] = ([], []) := by decide
    rw [h2, runsOf]
  simp only [this, List.mem_cons, List.mem_nil_iff, or_false] at hg
  rcases hg with rfl | rfl <;> decide
example : fwdStreams 7 [(2, 0)] [(1, { reasm := [r2, r3], seq := 5 }), (2, { reasm := [], seq := 0 })]
    = .ok ([(1, { reasm := [r2, r3], seq := 5 }), (2, { reasm := [], seq := 1 })], 0, []) := by decide

/-! ## (e) integrity: what is delivered is a sent message, never a splice -/

/-- **pr_integrity**.  The peer has sent the messages `rs` (any mix of streams, ordered/unordered,
reliable or not, any sizes), fragmented by `_send` from state `t`.  A stream of the receiver starts empty and
undergoes ANY sequence of the operations the transport performs on it — `add_chunk` of fragments of
stream `k` that the peer produced, in any order, with any omissions; `prune_chunks` for any FORWARD TSN;
setting the expected sequence number to anything; `pop_messages` at any time.  Then every message it
ever yields is `(stream, ppid, bytes)` of ONE message the peer sent on stream `k`: a delivery is never a
splice of fragments of different messages, never truncated, never from another stream. -/
theorem pr_integrity (t : Tx) (rs : List SendReq) (hlen : (sentWire t rs).flatten.length < 4294967296)
    (k : Nat) (ops : List StreamOp)
    (hops : ∀ c, StreamOp.add c ∈ ops → c ∈ (sentWire t rs).flatten ∧ c.sid = k)
    (s' : InStream) (out : List Msg) (h : runOps {} ops = .ok (s', out)) :
    ∀ m ∈ out, ∃ r ∈ rs, r.sid = k ∧ m = { sid := r.sid, ppid := r.ppid, data := r.data } := by
  have hsound := runOps_sound (fun c => c ∈ (sentWire t rs).flatten ∧ c.sid = k) {} ops s' out
    (by simp) hops h
  intro m hm
  obtain ⟨R, hR, hgood⟩ := hsound.2 m hm
  obtain ⟨r, hr, hmr⟩ := goodMsg_is_sent t rs hlen R (fun c hc => (hR c hc).1) m hgood
  refine ⟨r, hr, ?_, hmr⟩
  obtain ⟨run, _, hsub, _, e, he, hsid, _⟩ := hgood
  have := (hR e (hsub e (List.mem_of_getLast? he))).2
  rw [hmr] at hsid
  simp only at hsid
  omega

/-- **pr_integrity for the receiver as a whole**, under ARBITRARY arrival lists that may include FORWARD TSN
chunks.  `rxRun` (Model/Sctp/Forward.lean) feeds DATA chunks through `_mark_received`, `add_chunk` and
`pop_messages` of their stream, and FORWARD TSN chunks — with ANY cumulative TSN and ANY stream list, honest
or not — through the cumulative-TSN update, `prune_chunks` on every stream and the sequence-number update +
`pop_messages` of the listed streams.  If every DATA chunk that arrives (in any order, duplicated, with any
omissions) is a fragment the peer produced with `_send`, then every message handed to the application on
any stream, reliable or not, is `(stream, ppid, bytes)` of ONE message the peer sent. -/
theorem pr_integrity_arrivals (t : Tx) (rs : List SendReq) (hlen : (sentWire t rs).flatten.length < 4294967296)
    (arrivals : List Arrival) (harr : ∀ c, Arrival.data c ∈ arrivals → c ∈ (sentWire t rs).flatten)
    (rx0 : Rx) (st' : RxSt) (out : List Msg) (h : rxRun (rx0, []) arrivals = .ok (st', out)) :
    ∀ m ∈ out, ∃ r ∈ rs, m = { sid := r.sid, ppid := r.ppid, data := r.data } := by
  have hok := rxRun_ok (fun c => c ∈ (sentWire t rs).flatten) arrivals (rx0, []) st' out
    (by intro p hp; simp at hp) harr h
  intro m hm
  obtain ⟨R, hR, hgood⟩ := hok.2 m hm
  exact goodMsg_is_sent t rs hlen R hR m hgood

/-- `pop_messages` always terminates normally (the fuel of the loop model is never exhausted), so the `.ok`
hypotheses of `pop_sound` / `pr_integrity*` only exclude the `AssertionError` of `add_chunk` on a duplicate TSN. -/
theorem pop_total (s : InStream) : ∃ msgs s', s.popMessages = .ok (msgs, s') := popMessages_total s

/-- `pop_messages` itself: every yielded message is the join of ONE complete run (B fragment, consecutive
TSNs, first E fragment) of the queue; what stays is a sub-list of the queue. -/
theorem pop_sound (s s' : InStream) (msgs : List Msg) (h : s.popMessages = .ok (msgs, s')) :
    (∀ m ∈ msgs, GoodMsg s.reasm m) ∧ s'.reasm.Sublist s.reasm := popMessages_sound s s' msgs h

private def reqA : SendReq := { sid := 1, ppid := 53, data := [7, 8, 9] }
private def wA : RChunk := { tsn := 13, sid := 1, ssn := 0, ppid := 53, flags := 3, data := [7, 8, 9] }
example : (sentWire tx0 [reqA]).flatten = [wA] := by decide +kernel
example : rxRun ({ last := 11, mis := [], dups := [] }, []) [.fwd 12 [(1, 4)], .data wA, .data wA] =
    .ok (({ last := 13, mis := [], dups := [13] }, [(1, { reasm := [], seq := 5 })]),
         [{ sid := 1, ppid := 53, data := [7, 8, 9] }]) := by decide +kernel
example : rxRun ({ last := 12, mis := [], dups := [] }, []) [.data wA] =
    .ok (({ last := 13, mis := [], dups := [] }, [(1, { reasm := [], seq := 1 })]),
         [{ sid := 1, ppid := 53, data := [7, 8, 9] }]) := by decide +kernel
example : runOps {} [.add wA, .prune 3, .setSeq 7, .pop] =
    .ok ({ reasm := [], seq := 7 }, [{ sid := 1, ppid := 53, data := [7, 8, 9] }]) := by decide

/-- an honest FORWARD TSN for the history `wire` (one fragment list per message, in sending order): it ends at a
message boundary `j` and lists, for every stream, the ssn of the last ordered message among the first `j`. -/
def HonestFwd (wire : List (List RChunk)) (cum : Int) (streams : List (Nat × Int)) : Prop :=
  ∃ j, j ≤ wire.length ∧
    ((wire.take j).flatten.getLast?.map (·.tsn)) = some cum ∧
    ∀ sid, dictGet streams sid =
      (((wire.take j).flatten.filter (fun c => !flagU c.flags && c.sid == sid)).getLast?).map (·.ssn)

/-- **Full delivery statement (NOT proved in Lean; checked on real runs by the `world` oracles
`oracle_c06`/`oracle_c01`).**  The receiver as a whole (`rxRun`: `_mark_received` in front of the streams), a peer
that sent `rs`, arrivals that are fragments of `rs` in any order / multiplicity / with omissions plus honest
FORWARD TSNs, the serial-number windows respected: on every stream the deliveries are a sub-multiset of the sends
(nothing twice) and, on an ordered stream, a sub-sequence of the sends in sending order.
The gap between `pr_integrity_arrivals` and this statement is (1) exactly-once acceptance of a TSN by
`_mark_received` under the window assumption (property C01's invariant), (2) the invariant that the expected ssn
never passes a message that can still be accepted (needs `HonestFwd` + (1)), and (3) that `Tx.updateAdvAck` only
ever emits `HonestFwd` chunks (sender side: `adv_ack_only_over_abandoned` + `abandon_whole_message*` give the
message-boundary and last-ssn parts for one call; the induction over sender histories is not done). -/
def pr_delivery_full : Prop :=
  ∀ (t : Tx) (rs : List SendReq) (arrivals : List Arrival) (st' : RxSt) (out : List Msg) (k : Nat),
    (sentWire t rs).flatten.length < 2147483648 → rs.length < 32768 →
    (∀ c, Arrival.data c ∈ arrivals → c ∈ (sentWire t rs).flatten) →
    (∀ cum streams, Arrival.fwd cum streams ∈ arrivals → HonestFwd (sentMsgs t rs) cum streams) →
    rxRun ({ last := tsn_minus_one t.localTsn, mis := [], dups := [] }, []) arrivals = .ok (st', out) →
    let sends : List Msg := (rs.filter (·.sid == k)).map fun r => { sid := r.sid, ppid := r.ppid, data := r.data }
    let got := out.filter (·.sid == k)
    (∃ l, l.Sublist sends ∧ got.Perm l) ∧
    ((∀ r ∈ rs, r.sid = k → r.ordered = true) → got.Sublist sends)

/-! ## (f) recovery: the stream is not wedged behind an abandoned message -/

/-- **pr_recovers_partial**.
(1) After `prune_chunks(cum)` the head of the reassembly queue, if any, is a B fragment or is waiting for a
fragment whose TSN the FORWARD TSN did not cover (it can still arrive): no orphan of a skipped message stays
in front of an ordered stream.
(2) Every run that is kept is not waiting for any TSN ≤ `cum`.
(3) Once the queue is empty — everything older was delivered or pruned — a fresh message whose fragments
all arrive is delivered at once by `pop_messages` (ordered: provided its sequence number is not ahead of the
expected one, which `forward_tsn_seq_not_backwards` + the sender's `forward_tsn_streams` arrange), and the
queue is empty again. -/
theorem pr_recovers_partial :
    (∀ (s : InStream) (cum : Int), ∀ h ∈ (s.pruneChunks cum).1.reasm.head?,
        flagB h.flags = true ∨ uint32_gte cum (tsn_minus_one h.tsn) = false) ∧
    (∀ (s : InStream) (cum : Int), ∃ kept : List (List RChunk), (s.pruneChunks cum).1.reasm = kept.flatten ∧
        ∀ g ∈ kept, g ∈ runsOf s.reasm ∧ runDead cum g = false) ∧
    (∀ (r : List RChunk) (hd e : RChunk) (seq : Int), FullRun r → r.head? = some hd → r.getLast? = some e →
        (flagU hd.flags = true ∨ uint16_gt hd.ssn seq = false) →
        ∃ seq', ({ reasm := r, seq := seq } : InStream).popMessages =
          .ok ([{ sid := e.sid, ppid := e.ppid, data := r.flatMap (·.data) }], { reasm := [], seq := seq' })) := by
  refine ⟨prune_head_not_wedged, ?_, ?_⟩
  · intro s cum
    refine ⟨(runsOf s.reasm).filter (fun g => !runDead cum g), by simp only [pruneChunks_eq], ?_⟩
    intro g hg
    have := List.mem_filter.1 hg
    exact ⟨this.1, by simpa using this.2⟩
  · intro r hd e seq hr hhd he hord
    exact ⟨_, popMessages_single_run r hr hd e hhd he seq hord⟩

/-- the fragments `_send` makes for a message are such a complete run once they have all arrived. -/
example : FullRun [wA] := FullRun.single wA (by decide) (by decide)
example : ({ reasm := [wA], seq := 0 } : InStream).popMessages =
    .ok ([{ sid := 1, ppid := 53, data := [7, 8, 9] }], { reasm := [], seq := 1 }) := by decide

/-- **Full recovery statement (NOT proved in Lean; checked on real runs by `oracle_recovers`).**  After the
network heals, a message sent afterwards on a partially reliable channel is delivered.  The gap to
`pr_recovers_partial` is liveness of the two-endpoint system (C02's fault-free continuation: retransmission
timers, SACKs and the re-sent FORWARD TSN eventually empty the queue in front of the fresh message). -/
def pr_recovers_full : Prop :=
  ∀ (s : InStream) (cum : Int) (r : List RChunk) (hd e : RChunk),
    -- everything in the queue is older than the FORWARD TSN and the FORWARD TSN ends at a message boundary
    (∀ c ∈ s.reasm, uint32_gte cum c.tsn = true ∧ (flagE c.flags = false → uint32_gt cum c.tsn = true)) →
    -- … and belongs to messages that are not ahead of the fresh one
    (∀ c ∈ s.reasm, uint16_gt c.ssn hd.ssn = false) →
    FullRun r → r.head? = some hd → r.getLast? = some e →
    (∀ c ∈ r, uint32_gt c.tsn cum = true) →
    ∃ (msgs : List Msg) (s' : InStream),
      ({ (s.pruneChunks cum).1 with reasm := (s.pruneChunks cum).1.reasm ++ r, seq := hd.ssn } : InStream).popMessages
        = .ok (msgs, s') ∧
      ({ sid := e.sid, ppid := e.ppid, data := r.flatMap (·.data) } : Msg) ∈ msgs

end Aiortc.Props.C06
