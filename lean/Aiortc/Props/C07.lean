import Aiortc.Model.Rtp.Fields
import Aiortc.Model.Rtp.Rtcp
import Aiortc.Model.Rtp.Packet
import Aiortc.Lemmas.Rtp.Fields
import Aiortc.Lemmas.Rtp.Rtcp
import Aiortc.Lemmas.Rtp.Packet
import Aiortc.Lemmas.Rtp.Safe
/-!
# C07 — RTP and RTCP packets round-trip through serialisation with exact field semantics

The models (`Aiortc.Rtp.*` in `Model/Rtp/*.lean`) mirror `src/aiortc/rtp.py` WITH fixes/C07-*.patch applied
and are tied to the code by `harness/props/C07.py`.  Every statement below quantifies over ALL values in the
stated domain (no enumeration).  `WF` = every field within its wire range (see `Model/Rtp/*.lean`).
-/
namespace Aiortc.Props.C07
open Aiortc Aiortc.Rtp Aiortc.Outcome

/-! ## constants the statements rely on (regenerated from the repo on every run) -/

theorem packet_type_consts :
    Gen.RTCP_SR = 200 ∧ Gen.RTCP_RR = 201 ∧ Gen.RTCP_SDES = 202 ∧ Gen.RTCP_BYE = 203
    ∧ Gen.RTCP_RTPFB = 205 ∧ Gen.RTCP_PSFB = 206 ∧ Gen.RTP_HEADER_LENGTH = 12 ∧ Gen.RTCP_HEADER_LENGTH = 4 := by
  decide

theorem lost_range_consts : Gen.PACKETS_LOST_MIN = -8388608 ∧ Gen.PACKETS_LOST_MAX = 8388607 := by decide

/-! ## 4. cumulative loss saturates at the 24-bit signed range and survives the wire -/

/-- `clamp_packets_lost` is exactly saturation at [-2^23, 2^23 - 1]. -/
theorem clamp_saturates (n : Int) :
    Gen.clamp_packets_lost n = (if n < -8388608 then -8388608 else if n > 8388607 then 8388607 else n) := by
  unfold Gen.clamp_packets_lost; omega

/-- Every clamped count packs (no `struct.error`) and unpacks to itself; it lies in the signed 24-bit range. -/
theorem lost_saturates (n : Int) :
    (packLost (Gen.clamp_packets_lost n)).bind unpackLost = ok (Gen.clamp_packets_lost n)
    ∧ -8388608 ≤ Gen.clamp_packets_lost n ∧ Gen.clamp_packets_lost n < 8388608 := by
  have h : -8388608 ≤ Gen.clamp_packets_lost n ∧ Gen.clamp_packets_lost n < 8388608 := by
    unfold Gen.clamp_packets_lost; omega
  refine ⟨?_, h⟩
  unfold packLost
  rw [if_pos (by omega)]
  exact unpackLost_lostBytes _ h.1 h.2

/-- Any in-range count round-trips (so the receiver-report field is exact). -/
theorem lost_roundtrip (c : Int) (h1 : -8388608 ≤ c) (h2 : c < 8388608) :
    (packLost c).bind unpackLost = ok c := by
  unfold packLost
  rw [if_pos (by omega)]
  exact unpackLost_lostBytes _ h1 h2

/-- Without clamping the field silently wraps: 2^23 comes back as -2^23 (why the receiver must clamp). -/
theorem lost_unclamped_wraps : (packLost 8388608).bind unpackLost = ok (-8388608) := by decide

/-! ## 5. REMB -/

/-- For every bitrate below 2^81 and every list of at most 255 SSRCs, `pack_remb_fci` does not raise, the
SSRC list survives, the decoded bitrate never exceeds the original and the loss is below 2^-17 relative. -/
theorem remb_precision (bitrate : Nat) (ssrcs : List Nat) (hb : bitrate < 2 ^ 81)
    (hn : ssrcs.length < 256) (hs : ∀ s ∈ ssrcs, s < 4294967296) :
    RembWF bitrate ssrcs ∧
    ∃ decoded, unpackRemb (packRemb bitrate ssrcs) = ok (decoded, ssrcs)
      ∧ decoded ≤ bitrate ∧ (bitrate - decoded) * 2 ^ 17 ≤ bitrate
      ∧ (bitrate ≠ decoded → (bitrate - decoded) * 2 ^ 17 < bitrate)
      ∧ (bitrate < 2 ^ 18 → decoded = bitrate) := by
  obtain ⟨_, hm, hlo, hhi, htop, hsmall⟩ := rembNorm_spec bitrate 0
  have hexp : (rembNorm bitrate 0).2 < 64 := by
    apply Classical.byContradiction
    intro hc
    have hge : 64 ≤ (rembNorm bitrate 0).2 := by omega
    have h17 := htop (by omega)
    have hp : 2 ^ 64 ≤ 2 ^ ((rembNorm bitrate 0).2 - 0) := Nat.pow_le_pow_right (by omega) (by omega)
    have : 0x20000 * 2 ^ 64 ≤ (rembNorm bitrate 0).1 * 2 ^ ((rembNorm bitrate 0).2 - 0) :=
      Nat.mul_le_mul h17 hp
    have e : (0x20000 : Nat) * 2 ^ 64 = 2 ^ 81 := by decide
    omega
  have hwf : RembWF bitrate ssrcs := ⟨hexp, hn, hs⟩
  refine ⟨hwf, (rembNorm bitrate 0).1 <<< (rembNorm bitrate 0).2, unpackRemb_packRemb bitrate ssrcs hwf, ?_⟩
  rw [Nat.shiftLeft_eq]
  simp only [Nat.sub_zero] at hlo hhi
  generalize rembNorm bitrate 0 = r at *
  rw [Nat.add_mul, Nat.one_mul] at hhi
  by_cases he : r.2 = 0
  · rw [he] at hlo hhi ⊢
    simp only [Nat.pow_zero, Nat.mul_one] at hlo hhi ⊢
    have : bitrate = r.1 := by omega
    subst this
    simp
  · have h17 := htop (by omega)
    have hX : 0x20000 * 2 ^ r.2 ≤ r.1 * 2 ^ r.2 := Nat.mul_le_mul_right _ h17
    have hpos : 0 < 2 ^ r.2 := Nat.two_pow_pos r.2
    generalize r.1 * 2 ^ r.2 = D at *
    generalize 2 ^ r.2 = X at *
    have e17 : (2 : Nat) ^ 17 = 131072 := by decide
    have e18 : (2 : Nat) ^ 18 = 262144 := by decide
    rw [e17, e18]
    refine ⟨hlo, by omega, fun _ => by omega, fun hlt => ?_⟩
    -- bitrate < 2^18 means the loop did not run
    have := hsmall (by omega)
    rw [this] at he
    exact absurd rfl he

/-- Below 2^18 the bitrate is carried exactly (exponent 0). -/
theorem remb_exact_small (bitrate : Nat) (ssrcs : List Nat) (hb : bitrate < 2 ^ 18)
    (hn : ssrcs.length < 256) (hs : ∀ s ∈ ssrcs, s < 4294967296) :
    unpackRemb (packRemb bitrate ssrcs) = ok (bitrate, ssrcs) := by
  have hb' : bitrate < 2 ^ 81 := Nat.lt_of_lt_of_le hb (by decide)
  obtain ⟨_, d, h1, _, _, _, h5⟩ := remb_precision bitrate ssrcs hb' hn hs
  rw [h1, h5 hb]

/-- 2^81 and above do not fit the 6-bit exponent: `pack_remb_fci` raises (outside the domain). -/
theorem remb_domain_sharp (bitrate : Nat) (ssrcs : List Nat) (hb : 2 ^ 81 ≤ bitrate) : ¬ RembWF bitrate ssrcs := by
  rintro ⟨he, _, _⟩
  obtain ⟨_, hm, _, hhi, _, _⟩ := rembNorm_spec bitrate 0
  simp only [Nat.sub_zero] at hhi
  generalize rembNorm bitrate 0 = r at *
  have h1 : (r.1 + 1) * 2 ^ r.2 ≤ 0x40000 * 2 ^ 63 :=
    Nat.mul_le_mul (by omega) (Nat.pow_le_pow_right (by omega) (by omega))
  have e : (0x40000 : Nat) * 2 ^ 63 = 2 ^ 81 := by decide
  omega

/-! ## 3. NACK -/

/-- A NACK denotes the same SET of sequence numbers on both sides, for EVERY list of 16-bit numbers
(any order, duplicates, across the wrap). -/
theorem nack_same_set (lost : List Nat) (h : ∀ p ∈ lost, p < 65536) (x : Nat) :
    x ∈ nackEntries (serLost lost) ↔ x ∈ lost :=
  mem_nackEntries_serLost lost h x

/-- For strictly ascending lists (what `sorted(set)` in the receiver yields) the LIST comes back. -/
theorem nack_roundtrip_ascending (lost : List Nat) (h : ∀ p ∈ lost, p < 65536) (hasc : Ascending lost) :
    nackEntries (serLost lost) = lost :=
  nackEntries_serLost_asc lost h hasc

/-- Whatever FCI bytes arrive, every parsed entry is a 16-bit sequence number. -/
theorem nack_parse_16bit (fci : Bytes) (h : IsBytes fci) : ∀ x ∈ nackEntries fci, x < 65536 :=
  nackEntries_lt fci h

/-- The wrap case of DESIGN §4 row 8: `[65535, 0]` is one FCI entry (pid 65535, bit 0) and parses back. -/
theorem nack_wrap_witness : serLost [65535, 0] = [255, 255, 0, 1] ∧ nackEntries [255, 255, 0, 1] = [65535, 0] := by
  decide

/-! ## 2. RTCP -/

/-- Every well-formed RTCP packet followed by anything parses to itself (NACK list in parser order)
followed by the parse of the rest. -/
theorem rtcp_single_roundtrip (p : RtcpPacket) (h : p.WF) (tail : Bytes) :
    parseCompound (serRtcp p ++ tail) = (parseCompound tail).bind fun ps => ok (normalise p :: ps) :=
  parseCompound_serRtcp p h tail

/-- Compound packets of ANY composition: SR, RR, SDES, BYE, RTPFB, PSFB in any order and number. -/
theorem rtcp_roundtrip_normalised (ps : List RtcpPacket) (h : ∀ p ∈ ps, p.WF) :
    parseCompound (serCompound ps) = ok (ps.map normalise) :=
  parseCompound_serCompound ps h

/-- `normalise` changes nothing but the order/multiplicity of a NACK list, and keeps its set. -/
theorem normalise_spec (p : RtcpPacket) (h : p.WF) :
    (∀ f s m lost, p = .rtpfb f s m lost →
      ∃ lost', normalise p = .rtpfb f s m lost' ∧ ∀ x, x ∈ lost' ↔ x ∈ lost)
    ∧ ((∀ f s m lost, p ≠ .rtpfb f s m lost) → normalise p = p) := by
  constructor
  · rintro f s m lost rfl
    exact ⟨_, rfl, fun x => mem_nackEntries_serLost lost h.2.2.2.1 x⟩
  · intro hne
    cases p <;> first | rfl | exact absurd rfl (hne _ _ _ _)

/-- Equal value: with ascending NACK lists, a compound packet parses back to exactly the list of packets. -/
theorem rtcp_roundtrip (ps : List RtcpPacket) (h : ∀ p ∈ ps, p.WF)
    (hasc : ∀ p ∈ ps, ∀ f s m lost, p = .rtpfb f s m lost → Ascending lost) :
    parseCompound (serCompound ps) = ok ps := by
  rw [parseCompound_serCompound ps h]
  congr 1
  have : ∀ p ∈ ps, normalise p = p := fun p hp => normalise_of_ascending p (h p hp) (hasc p hp)
  clear h hasc
  induction ps with
  | nil => rfl
  | cons p ps ih =>
    rw [List.map_cons, this p (by simp), ih (fun q hq => this q (by simp [hq]))]

/-! ## 1. RTP -/

/-- `parse(serialize(p)) = p` with the extensions that have an id in the map; any CSRC list, any padding
bytes, one- or two-byte extension form, any well-formed id map. -/
theorem rtp_roundtrip (ids : ExtIds) (hids : ids.WF) (p : RtpPacket) (hp : p.WF) (pad : Bytes)
    (hpad : 0 < p.paddingSize → pad.length = p.paddingSize - 1) :
    parse ids (serialize ids p pad) = ok { p with extensions := restrict ids p.extensions } :=
  parse_serialize ids hids p hp pad hpad

/-- With every extension configured nothing is dropped: `parse(serialize(p)) = p`. -/
theorem restrict_all_configured (ids : ExtIds) (v : HeaderExtensions) (hw : ids.WF)
    (hall : ids.mid.isSome ∧ ids.repairedRtpStreamId.isSome ∧ ids.rtpStreamId.isSome ∧ ids.absSendTime.isSome
        ∧ ids.transmissionOffset.isSome ∧ ids.audioLevel.isSome ∧ ids.transportSequenceNumber.isSome) :
    restrict ids v = v := by
  obtain ⟨h1, h2, h3, h4, h5, h6, h7⟩ := hall
  have hr := hw.1
  simp only [ExtIds.toList, List.mem_cons, List.not_mem_nil, or_false, forall_eq_or_imp, forall_eq] at hr
  obtain ⟨r1, r2, r3, r4, r5, r6, r7⟩ := hr
  have kk : ∀ {α} (i : Option Nat) (o : Option α), i.isSome → (∀ j ∈ i, 0 < j ∧ j < 256) → keep i o = o := by
    intro α i o hi hj
    cases i with
    | none => cases hi
    | some j => have := hj j rfl; simp only [keep]; rw [if_neg (by omega)]
  cases v
  simp only [restrict]
  rw [kk _ _ h1 r1, kk _ _ h2 r2, kk _ _ h3 r3, kk _ _ h4 r4, kk _ _ h5 r5, kk _ _ h6 r6, kk _ _ h7 r7]

/-- The extension container alone: `unpack_header_extensions(*pack_header_extensions(x)) == x`, 32-bit
aligned; the one-byte form is chosen iff every id is ≤ 14 and every length is in 1..16. -/
theorem hdrext_roundtrip (exts : List (Nat × Bytes)) (hne : exts ≠ [])
    (h : ∀ x ∈ exts, 0 < x.1 ∧ x.1 < 256 ∧ x.2.length < 256) :
    unpackHeaderExtensions (packHeaderExtensions exts).1 (packHeaderExtensions exts).2 = ok exts
    ∧ (packHeaderExtensions exts).2.length % 4 = 0
    ∧ ((packHeaderExtensions exts).1 = 0xBEDE ↔ ∀ x ∈ exts, x.1 ≤ 14 ∧ 1 ≤ x.2.length ∧ x.2.length ≤ 16)
    ∧ ((packHeaderExtensions exts).1 = 0x1000 ↔ ¬ ∀ x ∈ exts, x.1 ≤ 14 ∧ 1 ≤ x.2.length ∧ x.2.length ≤ 16) := by
  obtain ⟨h1, h2, _, _, _⟩ := unpack_pack exts hne h
  refine ⟨h1, h2, ?_⟩
  have hemp : exts.isEmpty = false := by cases exts <;> simp_all
  have hany : exts.any needsTwoByte = true ↔ ¬ ∀ x ∈ exts, x.1 ≤ 14 ∧ 1 ≤ x.2.length ∧ x.2.length ≤ 16 := by
    simp only [List.any_eq_true, needsTwoByte, Bool.or_eq_true, decide_eq_true_eq, beq_iff_eq]
    constructor
    · rintro ⟨x, hx, hc⟩ hall; have := hall x hx; omega
    · intro hn
      apply Classical.byContradiction
      intro hc
      apply hn
      intro x hx
      have : ¬ ((x.1 > 14 ∨ x.2.length = 0) ∨ x.2.length > 16) := fun h' => hc ⟨x, hx, h'⟩
      omega
  unfold packHeaderExtensions
  rw [hemp]
  simp only [Bool.false_eq_true, ↓reduceIte]
  by_cases ha : exts.any needsTwoByte = true
  · simp only [ha, ↓reduceIte]
    have := hany.mp ha
    constructor
    · constructor
      · intro h'; exact absurd h' (by decide)
      · intro h'; exact absurd h' this
    · constructor
      · intro _; exact this
      · intro _; trivial
  · simp only [ha, Bool.false_eq_true, ↓reduceIte]
    have hnn : ¬¬ ∀ x ∈ exts, x.1 ≤ 14 ∧ 1 ≤ x.2.length ∧ x.2.length ≤ 16 := fun h' => ha (hany.mpr h')
    have hall := Classical.not_not.mp hnn
    constructor
    · constructor
      · intro _; exact hall
      · intro _; trivial
    · constructor
      · intro h'; exact absurd h' (by decide)
      · intro h'; exact absurd hall h'

/-! ## 6. RTX -/

/-- `unwrap_rtx(wrap_rtx(p, pt', seq', ssrc'), p.payload_type, p.ssrc)` is `p` in every field except
`padding_size`, which `wrap_rtx` does not carry (it is 0 afterwards). Holds for ANY rtx payload type,
sequence number and SSRC. -/
theorem rtx_invertible (p : RtpPacket) (hseq : p.sequenceNumber < 65536) (pt' seq' ssrc' : Nat) :
    unwrapRtx (wrapRtx p pt' seq' ssrc') p.payloadType p.ssrc = ok { p with paddingSize := 0 } := by
  unfold unwrapRtx wrapRtx
  have e1 : (u16be p.sequenceNumber ++ p.payload).take 2 = u16be p.sequenceNumber := by simp [u16be]
  have e2 : (u16be p.sequenceNumber ++ p.payload).drop 2 = p.payload := by simp [u16be]
  simp only [e1, e2, unpackU16_u16be _ hseq]

/-- The RTX packet itself: rtx header fields, original timestamp/marker/CSRC/extensions, and the
payload is the original sequence number (OSN) followed by the original payload. -/
theorem rtx_wrap_fields (p : RtpPacket) (pt' seq' ssrc' : Nat) :
    let r := wrapRtx p pt' seq' ssrc'
    r.payloadType = pt' ∧ r.sequenceNumber = seq' ∧ r.ssrc = ssrc' ∧ r.timestamp = p.timestamp
    ∧ r.marker = p.marker ∧ r.csrc = p.csrc ∧ r.extensions = p.extensions
    ∧ r.payload = u16be p.sequenceNumber ++ p.payload :=
  ⟨rfl, rfl, rfl, rfl, rfl, rfl, rfl, rfl⟩

/-- A retransmission payload shorter than 2 bytes makes `unwrap_rtx` raise `struct.error`
(the receiver guards this with `len(packet.payload) < 2`). -/
theorem rtx_short_payload_crashes (rtx : RtpPacket) (h : rtx.payload.length < 2) (pt ssrc : Nat) :
    unwrapRtx rtx pt ssrc = crash "struct.error" := by
  unfold unwrapRtx
  match hp : rtx.payload, h with
  | [], _ => rfl
  | [a], _ => rfl

/-! ## 7. the parsers raise nothing but ValueError (fixed tree; DESIGN §4 rows 6 and 8; reused by C05) -/

/-- `RtpPacket.parse(data, map)`: for EVERY id map (also ids 0, duplicates) and EVERY input. -/
theorem rtp_parse_only_value_error (ids : ExtIds) (data : Bytes) :
    parse ids data = valueError ∨ ∃ p, parse ids data = ok p :=
  parse_safe ids data

/-- `RtcpPacket.parse(data)`: for EVERY input. -/
theorem rtcp_parse_only_value_error (data : Bytes) :
    parseCompound data = valueError ∨ ∃ ps, parseCompound data = ok ps :=
  parseCompound_safe data

/-- `unpack_remb_fci(data)`: for EVERY input (an SSRC count beyond the data is a ValueError). -/
theorem remb_parse_only_value_error (data : Bytes) :
    unpackRemb data = valueError ∨ ∃ r, unpackRemb data = ok r :=
  unpackRemb_safe data

/-- On the unfixed tree a typed extension of the wrong length raised `struct.error`; in the fixed model
e.g. a 2-byte abs-send-time is a ValueError. -/
theorem hdrext_wrong_length_rejected :
    getStep { absSendTime := some 1 } {} (1, [0xAA, 0xBB]) = valueError
    ∧ getStep { transmissionOffset := some 1 } {} (1, [0xAA, 0xBB]) = valueError
    ∧ getStep { audioLevel := some 1 } {} (1, [0xAA, 0xBB]) = valueError
    ∧ getStep { transportSequenceNumber := some 1 } {} (1, [0xAA]) = valueError := by
  decide

/-! ## non-vacuity: the hypotheses are satisfiable by non-trivial values -/

example : RtcpPacket.WF (.rtpfb 1 1 2 [65534, 65535, 0, 1, 17]) := by decide
example : Ascending [0, 1, 17, 65534, 65535] := by simp [Ascending]
example : RtcpPacket.WF (.sdes [⟨1, [(1, [97, 98, 99])]⟩, ⟨2, []⟩]) := by decide
example : RtcpPacket.WF (.sr 1 ⟨2 ^ 64 - 1, 2, 3, 4⟩ [⟨1, 255, -8388608, 4, 5, 6, 7⟩]) := by decide
example : ExtIds.WF { mid := some 1, absSendTime := some 15, transmissionOffset := some 255 } := by decide
def examplePacket : RtpPacket :=
  { marker := 1, payloadType := 127, sequenceNumber := 65535, csrc := [1, 2],
    extensions := { mid := some [], transmissionOffset := some (-8388608), audioLevel := some (true, 127) },
    payload := [1, 2, 3], paddingSize := 255 }
example : examplePacket.WF := by decide
example : RembWF (2 ^ 81 - 1) [1, 2] := (remb_precision _ _ (by decide) (by decide) (by decide)).1
example : parseCompound (serCompound [.bye [1], .rtpfb 1 1 2 [0, 65535]]) = ok [.bye [1], .rtpfb 1 1 2 [0, 65535]] :=
  rtcp_roundtrip _ (by decide) (by
    intro p hp f s m lost he
    simp only [List.mem_cons, List.not_mem_nil, or_false] at hp
    rcases hp with rfl | rfl <;> cases he
    simp [Ascending])

end Aiortc.Props.C07
