import Aiortc.Model.Rtp.Ops
import Aiortc.Lemmas.C07.Ops
import Aiortc.Props.C07
/-!
# C07, round 3 — the round trip does not depend on the history of the objects involved

`Props/C07.lean` states the round trips for *values* and for ONE id record.  The library's
`HeaderExtensionsMap` is a long-lived mutable object that is `configure()`d again between uses (every sender
/ receiver that registers on a bundled transport), and packets are mutable objects that are re-stamped and
serialised again.  `Model/Rtp/Ops.lean` is the reference semantics of such histories; the `ops`
correspondence of the harness runs the same histories on live Python objects and compares every step.

The theorems say what the reference semantics guarantees after an ARBITRARY history `hist`.
-/
namespace Aiortc.Props.C07Ops
open Aiortc Aiortc.Rtp Aiortc.Rtp.Ops Aiortc.Outcome Aiortc.Lemmas.C07.Ops

/-! ## `configure`: the id record is a function of the configure history -/

/-- Two `configure` calls are one call with the concatenated extension lists … -/
theorem configure_append (ids : ExtIds) (l₁ l₂ : List (Uri × Nat)) :
    configure (configure ids l₁) l₂ = configure ids (l₁ ++ l₂) := by
  simp [configure, List.foldl_append]

/-- … so the map after any number of calls is the fold of ALL entries seen so far, in order, over the empty
record (nothing else — in particular not whether `get`/`set` were used in between — enters). -/
theorem configure_history (ls : List (List (Uri × Nat))) :
    ls.foldl configure {} = configure {} ls.flatten := by
  suffices h : ∀ ids, ls.foldl configure ids = configure ids ls.flatten from h _
  induction ls with
  | nil => intro ids; rfl
  | cons l ls ih => intro ids; rw [List.foldl_cons, ih, List.flatten_cons, ← configure_append]

/-- A later `configure` ADDS: an entry for a known URI sets the id of that extension … -/
theorem configure_sets (ids : ExtIds) (l : List (Uri × Nat)) (i : Nat) :
    (configure ids (l ++ [(.mid, i)])).mid = some i
    ∧ (configure ids (l ++ [(.repairedRtpStreamId, i)])).repairedRtpStreamId = some i
    ∧ (configure ids (l ++ [(.rtpStreamId, i)])).rtpStreamId = some i
    ∧ (configure ids (l ++ [(.absSendTime, i)])).absSendTime = some i
    ∧ (configure ids (l ++ [(.transmissionOffset, i)])).transmissionOffset = some i
    ∧ (configure ids (l ++ [(.audioLevel, i)])).audioLevel = some i
    ∧ (configure ids (l ++ [(.transportSequenceNumber, i)])).transportSequenceNumber = some i := by
  simp [configure, List.foldl_append, configure1]

/-- … and never removes or changes the id of an extension it does not mention (shown for `mid`; unknown URIs
change nothing at all). -/
theorem configure_keeps (ids : ExtIds) (l : List (Uri × Nat)) :
    ((∀ e ∈ l, e.1 ≠ .mid) → (configure ids l).mid = ids.mid)
    ∧ ((∀ e ∈ l, e.1 = .other) → configure ids l = ids) := by
  constructor
  · induction l generalizing ids with
    | nil => intro _; rfl
    | cons e l ih =>
      intro h
      have he := h e (by simp)
      rw [configure, List.foldl_cons, ← configure, ih _ (fun x hx => h x (by simp [hx]))]
      obtain ⟨u, i⟩ := e
      cases u <;> first | rfl | exact absurd rfl he
  · induction l generalizing ids with
    | nil => intro _; rfl
    | cons e l ih =>
      intro h
      have he := h e (by simp)
      rw [configure, List.foldl_cons, ← configure, ih _ (fun x hx => h x (by simp [hx]))]
      obtain ⟨u, i⟩ := e
      simp only at he
      subst he
      rfl

/-! ## histories -/

/-- **Serialising observes the current field values and the current id record only.**  Whatever happened
before (`hist`: the object may have been built with other values, serialised, parsed into, modified; the map
may have been used for any number of packets), once the live object has the field values `v`, serialising it
gives exactly what a fresh object with these values gives under a map holding the same ids. -/
theorem ops_ser_current_value (pool : Pool) (hist : List Op) (o m b : Nat) (v : Val) :
    run (exec pool hist) [.put o v, .ser o m b] =
      [.done, .bytes (serVal ((exec pool hist).maps m) v)] := by
  simp [run, step, upd_same]

/-- Serialising twice in a row gives the same bytes. -/
theorem ops_ser_twice (pool : Pool) (o m b b' : Nat) :
    run pool [.ser o m b, .ser o m b'] = [(step pool (.ser o m b)).2, (step pool (.ser o m b)).2] := by
  simp only [run, step]
  cases h : (pool.objs o).bind (serVal (pool.maps m)) <;> simp [h]

/-- **Parsing observes the bytes and the current id record only**: in two pools that agree on the register
and on the ids of the map, `RtpPacket.parse`, `RtcpPacket.parse` and `HeaderExtensionsMap.get` observe the
same — in particular after the owner of an earlier result modified it. -/
theorem ops_parse_pure (pool pool' : Pool) (b m o o' : Nat) (hr : pool'.regs b = pool.regs b)
    (hm : pool'.maps m = pool.maps m) (profile : Nat) (d : Bytes) :
    (step pool (.parseRtp b m o)).2 = .rtp (parse (pool.maps m) (pool.regs b))
    ∧ (step pool' (.parseRtp b m o')).2 = (step pool (.parseRtp b m o)).2
    ∧ (step pool' (.parseRtcp b o')).2 = (step pool (.parseRtcp b o)).2
    ∧ (step pool' (.mget m profile d)).2 = (step pool (.mget m profile d)).2 := by
  simp only [step, hr, hm, and_self]

/-- Sequence form: parse, then let anything happen that does not re-configure the map or overwrite the
register — the owner modifies the result in any way (`put`), other packets are parsed and serialised with the
same map, other maps are configured — and parse the same bytes again: the last observation equals the first. -/
theorem ops_reparse_same (pool : Pool) (b m o o' : Nat) (mid : List Op) (hq : ∀ op ∈ mid, Quiet m b op) :
    (run pool ([.parseRtp b m o] ++ mid ++ [.parseRtp b m o'])).getLast? = (run pool [.parseRtp b m o]).head? := by
  rw [run_append_singleton, List.getLast?_concat]
  have hs := step_quiet pool m b (.parseRtp b m o) trivial
  have he := exec_quiet (step pool (.parseRtp b m o)).1 m b mid hq
  have := (ops_parse_pure pool (exec pool ([.parseRtp b m o] ++ mid)) b m o o'
    (by simp only [List.singleton_append, exec]; exact he.2.trans hs.2)
    (by simp only [List.singleton_append, exec]; exact he.1.trans hs.1) 0 []).2.1
  rw [this]
  rfl

/-- **Round trip for re-used objects and re-configured maps.**  After an arbitrary history — which may
contain any number of `configure` calls on map `m` interleaved with uses of it — configure `m` once more
(`l`), overwrite the live packet in slot `o` with in-range field values, serialise it with `m` and parse the
bytes with `m`: if the id record the history produced is legal (ids 1..255, distinct), the packet parses back
to exactly these values, with every extension that has an id in the record at that time — including those
whose id was configured after the map was first used. -/
theorem ops_reuse_roundtrip (pool : Pool) (hist : List Op) (m o o' b : Nat) (l : List (Uri × Nat))
    (p : RtpPacket) (pad : Bytes)
    (hids : (configure ((exec pool hist).maps m) l).WF) (hp : p.WF) (hpad : pad.length = p.paddingSize - 1) :
    run (exec pool hist) [.cfg m l, .put o (.rtp p pad), .ser o m b, .parseRtp b m o'] =
      [.done, .done, .bytes (some (serialize (configure ((exec pool hist).maps m) l) p pad)),
       .rtp (ok { p with extensions := restrict (configure ((exec pool hist).maps m) l) p.extensions })] := by
  have hser : rtpSerOk (configure ((exec pool hist).maps m) l) p pad := by
    refine ⟨hp, ?_, hpad⟩
    intro i hi
    rw [List.mem_filterMap] at hi
    obtain ⟨oi, ho, hoi⟩ := hi
    exact (hids.1 oi ho i hoi).2
  have hrt := C07.rtp_roundtrip _ hids p hp pad (fun _ => hpad)
  simp only [run, step, upd_same, Option.bind_some, serVal, if_pos hser, hrt]

/-- The same for RTCP: overwrite a live compound with well-formed packets (NACK lists ascending), serialise,
parse — after any history. -/
theorem ops_reuse_roundtrip_rtcp (pool : Pool) (hist : List Op) (o o' m b : Nat) (ps : List RtcpPacket)
    (h : ∀ p ∈ ps, p.WF) (hasc : ∀ p ∈ ps, ∀ f s m lost, p = .rtpfb f s m lost → Ascending lost) :
    run (exec pool hist) [.put o (.rtcp ps), .ser o m b, .parseRtcp b o'] =
      [.done, .bytes (some (serCompound ps)), .rtcp (ok ps)] := by
  have hall : ps.all (fun p => decide p.WF) = true := by
    rw [List.all_eq_true]; intro p hp; exact decide_eq_true (h p hp)
  have hrt := C07.rtcp_roundtrip ps h hasc
  simp only [run, step, upd_same, Option.bind_some, serVal, hall, if_true, hrt]

/-- The seeded scenario, in the model: an audio receiver registers first (mid 1, audio level 2) and the map is
used; then a video receiver registers on the same transport (abs-send-time 3, transport-cc 15): a packet
carrying the NEW extensions round-trips (hypotheses of `ops_reuse_roundtrip` satisfied by a non-trivial history). -/
def exHist (bs : Bytes) : List Op :=
  [.mnew 0, .cfg 0 [(.mid, 1), (.audioLevel, 2)], .raw 0 bs, .parseRtp 0 0 1, .mget 0 0xBEDE bs]
def exPacket : RtpPacket :=
  { payloadType := 96, sequenceNumber := 65535,
    extensions := { mid := some [0x31], absSendTime := some 0xFFFFFF, transportSequenceNumber := some 65535 } }

example (bs : Bytes) :
    ∃ ids, ids.absSendTime = some 3 ∧ ids.transportSequenceNumber = some 15
      ∧ restrict ids exPacket.extensions = exPacket.extensions
      ∧ run (exec Pool.empty (exHist bs))
          [.cfg 0 [(.mid, 1), (.absSendTime, 3), (.transportSequenceNumber, 15)], .put 0 (.rtp exPacket []),
           .ser 0 0 1, .parseRtp 1 0 2] =
        [.done, .done, .bytes (some (serialize ids exPacket [])), .rtp (ok exPacket)] := by
  have hm : (exec Pool.empty (exHist bs)).maps 0 = ({ mid := some 1, audioLevel := some 2 } : ExtIds) := by
    have := exec_quiet (exec Pool.empty [.mnew 0, .cfg 0 [(.mid, 1), (.audioLevel, 2)]]) 0 7
      [.raw 0 bs, .parseRtp 0 0 1, .mget 0 0xBEDE bs] (by simp [Quiet])
    exact this.1
  have h := ops_reuse_roundtrip Pool.empty (exHist bs) 0 0 2 1
    [(.mid, 1), (.absSendTime, 3), (.transportSequenceNumber, 15)] exPacket []
    (by rw [hm]; decide) (by decide) (by decide)
  rw [hm] at h
  exact ⟨_, rfl, rfl, by decide, h⟩

end Aiortc.Props.C07Ops
