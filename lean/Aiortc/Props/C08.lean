import Aiortc.Model.Sctp.Wire
import Aiortc.Lemmas.SctpWire
import Aiortc.Lemmas.SctpBurst
import Aiortc.Lemmas.SctpTotal
import Aiortc.Lemmas.C08.Checksum
/-!
# C08 — SCTP packets round-trip exactly and corrupted packets are rejected by checksum

Model: `Model/Sctp/Wire.lean` (codec, fixed behaviour = after `fixes/C08-*.patch`), `Model/Crc32c.lean`.

* Part 1 (round trip): `packet_roundtrip`, `packet_reserialize`, per-family corollaries with the literal
  bounds of the property text, `decode_encode_params`, `reconfig_roundtrip`.
* Part 2 (bursts): `crc_burst_partial` (burst entirely outside or entirely inside the checksum field),
  `C08_full` / `C08_full_false` (a straddling burst is accepted — known finding C08-crc-straddle),
  `crc_burst_four_bytes` (numbering-independent corollary); `checksum_field_exact`, `built_checksum_exact`: the
  checksum field an accepted / built packet carries is the ONLY 4-byte value accepted in its place (not its
  byte-reversed form, not the big-endian pack of the CRC, not another algorithm's checksum, not zero).
* Pinned-code defects reproduced on the `fixed = false` model, and their absence after the fix.
-/
namespace Aiortc.Props.C08
open Aiortc Aiortc.Gen Aiortc.Crc32c Aiortc.Sctp.Wire

/-! ## constants of the regenerated source the statements below rely on -/

/-- The model CRC reproduces the CRC-32C check value ("123456789" ↦ 0xE3069283). -/
theorem crc32c_check_value : crc32c [0x31, 0x32, 0x33, 0x34, 0x35, 0x36, 0x37, 0x38, 0x39] = 0xE3069283 := by
  decide +kernel

theorem header_consts :
    SCTP_PACKET_MINIMUM_LENGTH = 16 ∧ SCTP_CHUNK_HEADER_LENGTH = 4 ∧ SCTP_COMMON_HEADER_LENGTH = 12 := by decide

theorem userdata_max_const : USERDATA_MAX_LENGTH = 1200 := by decide

/-- The model's class list is `CHUNK_CLASSES` (names, type ids, order) and the ids are pairwise distinct
bytes, so the dict `CHUNK_TYPES` maps each id to exactly its class. -/
theorem chunk_classes_table :
    chunkClasses.map (fun c => (c.name, c.ty)) = CHUNK_TYPES ∧ (chunkClasses.map Cls.ty).Nodup ∧
      ∀ c ∈ chunkClasses, c.ty < 256 := by decide

/-- The ids are the ones of RFC 4960 §3.2, RFC 3758 (FORWARD-TSN = 192) and RFC 6525 (RE-CONFIG = 130). -/
theorem chunk_type_ids_rfc :
    chunkClasses.map Cls.ty = [0, 1, 2, 3, 4, 5, 6, 7, 8, 9, 10, 11, 14, 130, 192] ∧
      RcCls.ty .resetOut = 13 ∧ RcCls.ty .resetResp = 16 ∧ RcCls.ty .addOut = 17 := by decide

theorem classOf_ty_all (c : Cls) : classOf c.ty = some c ∧ c ∈ chunkClasses := by
  refine ⟨classOf_ty c, ?_⟩
  cases c with
  | plain k => cases k <;> decide
  | params k => cases k <;> decide
  | init k => cases k <;> decide
  | data => decide
  | sack => decide
  | shutdown => decide
  | forwardTsn => decide

theorem padl_spec (n : Nat) : padl n < 4 ∧ (n + padl n) % 4 = 0 := ⟨padl_lt n, padl_mod n⟩

/-! ## Part 1: round trip -/

/-- `serialize_packet` succeeds exactly on field values in wire range (otherwise `struct.error`). -/
theorem serialize_wf (sp dp tag : Nat) (c : Chunk) :
    (serializePacket sp dp tag c = .ok (serializePacketRaw sp dp tag c) ↔
      (sp < 65536 ∧ dp < 65536 ∧ tag < 4294967296 ∧ c.inRange = true)) ∧
    (serializePacket sp dp tag c = .crash "struct.error" ↔
      ¬ (sp < 65536 ∧ dp < 65536 ∧ tag < 4294967296 ∧ c.inRange = true)) := by
  unfold serializePacket headerInRange
  by_cases h : sp < 65536 ∧ dp < 65536 ∧ tag < 4294967296 ∧ c.inRange = true
  · obtain ⟨h1, h2, h3, h4⟩ := h
    simp [h1, h2, h3, h4]
  · have : ¬ ((decide (sp < 65536) && decide (dp < 65536) && decide (tag < 4294967296) && c.inRange) = true) := by
      intro hh; simp only [Bool.and_eq_true, decide_eq_true_eq] at hh; exact h ⟨hh.1.1.1, hh.1.1.2, hh.1.2, hh.2⟩
    simp [this, h]

/-- **Round trip**: every packet the library can build — any chunk class, any flags, parameter lists with
values of any length (all four padding residues), gap / duplicate / stream lists, user data of any
length (up to the 16-bit length field) — parses back to exactly the same header fields and chunk. -/
theorem packet_roundtrip (sp dp tag : Nat) (c : Chunk)
    (hsp : sp < 65536) (hdp : dp < 65536) (htag : tag < 4294967296) (hc : c.inRange = true) :
    ∃ bytes, serializePacket sp dp tag c = .ok bytes ∧ parsePacket bytes = .ok (sp, dp, tag, [c]) := by
  refine ⟨serializePacketRaw sp dp tag c, ?_, ?_⟩
  · exact ((serialize_wf sp dp tag c).1).2 ⟨hsp, hdp, htag, hc⟩
  · exact parsePacketG_serialize true sp dp tag c (by simp [headerInRange, hsp, hdp, htag]) hc

/-- … and whatever the parser returns for a built packet re-serialises to identical bytes. -/
theorem packet_reserialize (sp dp tag : Nat) (c : Chunk)
    (hsp : sp < 65536) (hdp : dp < 65536) (htag : tag < 4294967296) (hc : c.inRange = true)
    (bytes : Bytes) (hser : serializePacket sp dp tag c = .ok bytes)
    (sp' dp' tag' : Nat) (cs : List Chunk) (hparse : parsePacket bytes = .ok (sp', dp', tag', cs)) :
    ∃ c', cs = [c'] ∧ serializePacket sp' dp' tag' c' = .ok bytes := by
  obtain ⟨b, hb, hp⟩ := packet_roundtrip sp dp tag c hsp hdp htag hc
  rw [hser] at hb
  cases hb
  rw [hp] at hparse
  cases hparse
  exact ⟨c, rfl, hser⟩

/-- The same holds for the pinned (unfixed) parser: the fixes do not change behaviour on built packets. -/
theorem packet_roundtrip_orig (sp dp tag : Nat) (c : Chunk)
    (hsp : sp < 65536) (hdp : dp < 65536) (htag : tag < 4294967296) (hc : c.inRange = true) :
    parsePacketOrig (serializePacketRaw sp dp tag c) = .ok (sp, dp, tag, [c]) :=
  parsePacketG_serialize false sp dp tag c (by simp [headerInRange, hsp, hdp, htag]) hc

/-- DATA with the literal bounds of the property: user data of every length `0..1200`
(`USERDATA_MAX_LENGTH`), all field values in wire range. -/
theorem data_roundtrip (sp dp tag flags tsn sid sseq proto : Nat) (ud : Bytes)
    (hsp : sp < 65536) (hdp : dp < 65536) (htag : tag < 4294967296) (hf : flags < 256)
    (h1 : tsn < 4294967296) (h2 : sid < 65536) (h3 : sseq < 65536) (h4 : proto < 4294967296)
    (hud : ud.length ≤ 1200) :
    parsePacket (serializePacketRaw sp dp tag (.data flags tsn sid sseq proto ud)) =
      .ok (sp, dp, tag, [.data flags tsn sid sseq proto ud]) := by
  apply parsePacketG_serialize true sp dp tag _ (by simp [headerInRange, hsp, hdp, htag])
  simp only [Chunk.inRange, Bool.and_eq_true, decide_eq_true_eq]
  omega

example : (Chunk.data 3 1 2 3 51 [0x61]).inRange = true := by decide
example : (Chunk.init .init 0 1 2 3 4 5 [(0xC000, []), (0x8008, [130, 192, 7])]).inRange = true := by decide

/-- SACK: any gap and duplicate lists that fit the 16-bit chunk length. -/
theorem sack_roundtrip (sp dp tag flags ctsn rwnd : Nat) (gaps : List (Nat × Nat)) (dups : List Nat)
    (hsp : sp < 65536) (hdp : dp < 65536) (htag : tag < 4294967296) (hf : flags < 256)
    (h1 : ctsn < 4294967296) (h2 : rwnd < 4294967296)
    (hg : ∀ g ∈ gaps, g.1 < 65536 ∧ g.2 < 65536) (hd : ∀ t ∈ dups, t < 4294967296)
    (hl : 16 + 4 * (gaps.length + dups.length) < 65536) :
    parsePacket (serializePacketRaw sp dp tag (.sack flags ctsn rwnd gaps dups)) =
      .ok (sp, dp, tag, [.sack flags ctsn rwnd gaps dups]) := by
  apply parsePacketG_serialize true sp dp tag _ (by simp [headerInRange, hsp, hdp, htag])
  simp only [Chunk.inRange, pairsInRange, u32sInRange, Bool.and_eq_true, decide_eq_true_eq, List.all_eq_true]
  exact ⟨⟨⟨⟨⟨hf, h1⟩, h2⟩, hl⟩, fun g hg' => ⟨(hg g hg').1, (hg g hg').2⟩⟩, hd⟩

/-- Parameter lists: values of any length (every residue mod 4), inter-parameter padding, no trailing
padding — `decode_params(encode_params(ps)) == ps`, for the fixed and the pinned decoder. -/
theorem decode_encode_params (ps : List Param)
    (h : ∀ p ∈ ps, p.1 < 65536 ∧ p.2.length + 4 < 65536) :
    decodeParams (encodeParams ps) = .ok ps ∧ decodeParamsOrig (encodeParams ps) = .ok ps := by
  have hr : paramsInRange ps = true := by
    simp only [paramsInRange, List.all_eq_true, Bool.and_eq_true, decide_eq_true_eq]
    exact h
  exact ⟨decodeParamsG_encode true ps hr, decodeParamsG_encode false ps hr⟩

example : decodeParams (encodeParams [(1, [9]), (2, [9, 9]), (3, [9, 9, 9]), (4, [9, 9, 9, 9]), (5, [])]) =
    .ok [(1, [9]), (2, [9, 9]), (3, [9, 9, 9]), (4, [9, 9, 9, 9]), (5, [])] := by decide

/-- Round 4: nothing in `decode_encode_params` / `packet_roundtrip` asks for DISTINCT entries — the lists range over all
lists, so repeated entries (equal to the last one, all equal, …) are covered.  Spelled out for the shape a
"pad every parameter except the last, found by value" encoder gets wrong: an entry `p` of any length, `n` times,
around an arbitrary middle part. -/
theorem params_roundtrip_repeated (p : Param) (n : Nat) (mid : List Param)
    (hp : p.1 < 65536 ∧ p.2.length + 4 < 65536) (hm : ∀ q ∈ mid, q.1 < 65536 ∧ q.2.length + 4 < 65536) :
    decodeParams (encodeParams (List.replicate n p ++ mid ++ [p])) = .ok (List.replicate n p ++ mid ++ [p]) := by
  refine (decode_encode_params _ ?_).1
  intro q hq
  simp only [List.mem_append, List.mem_replicate, List.mem_singleton] at hq
  rcases hq with (⟨_, rfl⟩ | h) | rfl
  · exact hp
  · exact hm q h
  · exact hp

example : decodeParams (encodeParams [(0x8008, [130, 192]), (0xC000, []), (0x8008, [130, 192])]) =
    .ok [(0x8008, [130, 192]), (0xC000, []), (0x8008, [130, 192])] := by decide
example : (encodeParams [(0x8008, [130, 192]), (0x8008, [130, 192])]).length = 14 := by decide
example : parsePacket (serializePacketRaw 5000 5000 0
      (.init .init 0 1 131072 65535 65535 5 [(0x8008, [130, 192]), (0xC000, []), (0x8008, [130, 192])])) =
    .ok (5000, 5000, 0, [.init .init 0 1 131072 65535 65535 5 [(0x8008, [130, 192]), (0xC000, []), (0x8008, [130, 192])]]) :=
  parsePacketG_serialize true _ _ _ _ (by decide) (by decide)
example : parsePacket (serializePacketRaw 5000 5000 7 (.sack 0 9 1 [(2, 3), (2, 3)] [7, 7, 7])) =
    .ok (5000, 5000, 7, [.sack 0 9 1 [(2, 3), (2, 3)] [7, 7, 7]]) :=
  parsePacketG_serialize true _ _ _ _ (by decide) (by decide)

/-- RE-CONFIG parameter classes: `cls.parse(bytes(p)) == p`, and the type table finds the class. -/
theorem reconfig_roundtrip (p : RcParam) (h : p.inRange = true) :
    p.serialize = .ok p.bytes ∧ RcParam.parse p.cls p.bytes = .ok p ∧
      RcParam.parseOrig p.cls p.bytes = .ok p ∧ rcClassOf p.cls.ty = some p.cls := by
  refine ⟨by simp [RcParam.serialize, h], ?_, ?_, by cases p <;> rfl⟩
  all_goals
    cases p with
    | resetOut a b c streams =>
      simp only [RcParam.inRange, Bool.and_eq_true, decide_eq_true_eq] at h
      obtain ⟨⟨⟨h1, h2⟩, h3⟩, hs⟩ := h
      simp only [RcParam.parse, RcParam.parseOrig, RcParam.parseG, RcParam.cls, RcParam.bytes,
        takeU32_u32be _ h1, takeU32_u32be _ h2, takeU32_u32be _ h3, readAllU16s_u16sBytes streams hs,
        Outcome.ofStruct, structToValue]
    | addOut a n =>
      simp only [RcParam.inRange, Bool.and_eq_true, decide_eq_true_eq] at h
      have h0 := takeU16_u16be 0 (by decide) []
      rw [List.append_nil] at h0
      simp only [RcParam.parse, RcParam.parseOrig, RcParam.parseG, RcParam.cls, RcParam.bytes,
        takeU32_u32be _ h.1, takeU16_u16be _ h.2, h0, Outcome.ofStruct, structToValue]
    | resetResp a r =>
      simp only [RcParam.inRange, Bool.and_eq_true, decide_eq_true_eq] at h
      have h0 := takeU32_u32be r h.2 []
      rw [List.append_nil] at h0
      simp only [RcParam.parse, RcParam.parseOrig, RcParam.parseG, RcParam.cls, RcParam.bytes,
        takeU32_u32be _ h.1, h0, Outcome.ofStruct, structToValue]

example : (RcParam.resetOut 1 2 3 [4, 5]).inRange = true := by decide

/-! ## Part 2: corrupted packets -/

/-- An accepted packet has a matching checksum. -/
theorem checksumOk_of_accepted (d : Bytes) (h : (parsePacket d).isOk = true) : checksumOk d = true := by
  cases hc : checksumOk d with
  | true => rfl
  | false =>
    rw [parsePacket, parsePacketG_of_checksum_false true d hc] at h
    simp [Outcome.isOk] at h

/-- What "a single burst of up to 32 bits was altered" means: `e` is the XOR difference between the
received and the sent packet; all its set bits (CRC-order position `8*i + k` = bit `k`, LSB = 0, of
byte `i`) lie in `[p, p + len)`, `len ≤ 32`, and at least one bit is set. -/
def IsBurst (e : Bytes) (p len : Nat) : Prop :=
  IsBytes e ∧ len ≤ 32 ∧ InWindow (bitsOf e) p len ∧ ∃ i : Nat, (bitsOf e)[i]? = some true

/-- Full-strength statement of the property's second sentence. -/
def C08_full : Prop :=
  ∀ (d e : Bytes) (p len : Nat), IsBytes d → (parsePacket d).isOk = true → e.length = d.length →
    IsBurst e p len → parsePacket (xorBytes d e) = .valueError

/-- **Burst theorem** (packets of ANY length): a burst of ≤ 32 bits that lies entirely outside or
entirely inside the checksum field (bit positions 64..95) makes `parse_packet` raise `ValueError`
— no chunk of the corrupted packet is constructed. Only `checksumOk d` is needed of `d`. -/
theorem crc_burst_partial (d e : Bytes) (p len : Nat) (hd : IsBytes d) (hacc : checksumOk d = true)
    (hl : e.length = d.length) (hb : IsBurst e p len)
    (hpos : p + len ≤ 64 ∨ 96 ≤ p ∨ (64 ≤ p ∧ p + len ≤ 96)) :
    parsePacket (xorBytes d e) = .valueError := by
  obtain ⟨he, hlen, hw, hne⟩ := hb
  apply parsePacketG_of_checksum_false
  rcases hpos with h | h | h
  · exact checksumOk_burst_outside d e he hl hacc p len hlen hw hne (Or.inl h)
  · exact checksumOk_burst_outside d e he hl hacc p len hlen hw hne (Or.inr h)
  · exact checksumOk_burst_inside d e hd he hl hacc p len hw hne h

/-- The same for accepted packets, in the shape of `C08_full` plus the position hypothesis. -/
theorem crc_burst_accepted (d e : Bytes) (p len : Nat) (hd : IsBytes d) (hacc : (parsePacket d).isOk = true)
    (hl : e.length = d.length) (hb : IsBurst e p len)
    (hpos : p + len ≤ 64 ∨ 96 ≤ p ∨ (64 ≤ p ∧ p + len ≤ 96)) :
    parsePacket (xorBytes d e) = .valueError :=
  crc_burst_partial d e p len hd (checksumOk_of_accepted d hacc) hl hb hpos

theorem inWindow_of_bounded (E : List Bool) (p len : Nat)
    (h : ∀ i, i < E.length → E[i]? = some true → p ≤ i ∧ i < p + len) : InWindow E p len := by
  intro i hi
  by_cases hlt : i < E.length
  · exact h i hlt hi
  · rw [List.getElem?_eq_none (by omega)] at hi; cases hi

/-- Witness: COOKIE-ACK packet `5000 → 5000`, tag 0; 18 altered bits within bits 34..65
(verification tag and the two lowest checksum bits). -/
def witnessD : Bytes := [19, 136, 19, 136, 0, 0, 0, 0, 128, 47, 246, 57, 11, 0, 0, 4]
def witnessE : Bytes := [0, 0, 0, 0, 188, 72, 210, 94, 3, 0, 0, 0, 0, 0, 0, 0]

theorem witness_is_built : serializePacket 5000 5000 0 (.plain .cookieAck 0 []) = .ok witnessD := by
  decide +kernel

theorem witness_burst : IsBurst witnessE 34 32 ∧ ¬ (34 + 32 ≤ 64 ∨ 96 ≤ 34 ∨ (64 ≤ 34 ∧ 34 + 32 ≤ 96)) := by
  refine ⟨⟨by decide, by decide, inWindow_of_bounded _ _ _ (by decide +kernel), ⟨34, by decide +kernel⟩⟩, by decide⟩

/-- The corrupted packet is accepted, with a different verification tag. -/
theorem witness_accepted :
    parsePacket (xorBytes witnessD witnessE) = .ok (5000, 5000, 3158889054, [.plain .cookieAck 0 []]) := by
  decide +kernel

/-- **Known finding C08-crc-straddle**: the unrestricted burst statement is false. -/
theorem C08_full_false : ¬ C08_full := by
  intro h
  have := h witnessD witnessE 34 32 (by decide) (by decide +kernel) (by decide) witness_burst.1
  rw [witness_accepted] at this
  cases this

/-- Numbering-independent corollary: any error confined to 4 consecutive bytes `i .. i+3` that are
all outside, or exactly, the checksum field is rejected. -/
theorem crc_burst_four_bytes (d e : Bytes) (i : Nat) (hd : IsBytes d) (he : IsBytes e)
    (hacc : checksumOk d = true) (hl : e.length = d.length)
    (hconf : ∀ j x, e[j]? = some x → x ≠ 0 → i ≤ j ∧ j < i + 4) (hne : ∃ x ∈ e, x ≠ 0)
    (hpos : i + 4 ≤ 8 ∨ 12 ≤ i ∨ i = 8) :
    parsePacket (xorBytes d e) = .valueError := by
  apply crc_burst_partial d e (8 * i) 32 hd hacc hl ?_ (by omega)
  refine ⟨he, Nat.le_refl _, ?_, ?_⟩
  · intro q hq
    obtain ⟨x, hx, hx0⟩ := byte_ne_zero_of_bit e q hq
    have := hconf (q / 8) x hx hx0
    omega
  · obtain ⟨x, hx, hx0⟩ := hne
    obtain ⟨j, hj⟩ := List.mem_iff_getElem?.mp hx
    -- a non-zero byte has a set bit among its low 8
    have : ¬ ∀ k, k < 8 → x.testBit k = false := fun hall => hx0 (byte_eq_zero x (he x hx) hall)
    have hex : ∃ k, k < 8 ∧ x.testBit k = true := by
      apply Classical.byContradiction
      intro hno
      apply this
      intro k hk
      cases hb : x.testBit k with
      | false => rfl
      | true => exact absurd ⟨k, hk, hb⟩ hno
    obtain ⟨k, hk, hb⟩ := hex
    exact ⟨8 * j + k, by rw [bitsOf_getElem? e j k hk, hj]; simp [hb]⟩

example : IsBurst [0, 0, 0, 0, 0, 0, 0, 0, 0, 0, 0, 0, 1, 0, 0, 0] 96 1 :=
  ⟨by decide, by decide, inWindow_of_bounded _ _ _ (by decide +kernel), ⟨96, by decide +kernel⟩⟩

/-! ### the checksum field is exact (round 3)

Every replacement of the 4 checksum bytes is a burst of ≤ 32 bits inside bits 64..95, so `crc_burst_partial` already
rejects it; the statements below say the same in terms of the FIELD VALUE, which is what a "lenient" verification
(accept the CRC in either byte order, accept the Adler-32 of RFC 2960, accept zero as "not computed" …) gives up. -/

/-- An accepted packet with its checksum field replaced by ANY other 4 bytes is rejected. -/
theorem checksum_field_exact (d v : Bytes) (hd : IsBytes d) (hacc : checksumOk d = true)
    (hv : IsBytes v) (hl : v.length = 4) (hne : v ≠ checksumField d) :
    parsePacket (withChecksum d v) = .valueError :=
  parsePacketG_of_checksum_false true _
    (checksumOk_withChecksum d v (isBytes_checksumField d hd) hacc hv hl hne)

/-- … so among the packets that agree with an accepted one outside bytes 8..11 exactly one is accepted. -/
theorem checksum_field_unique (d v : Bytes) (hd : IsBytes d) (hacc : (parsePacket d).isOk = true)
    (hv : IsBytes v) (hl : v.length = 4) :
    (parsePacket (withChecksum d v)).isOk = true ↔ v = checksumField d :=
  checksum_field_unique_aux d v (isBytes_checksumField d hd) (checksumOk_of_accepted d hacc) hacc hv hl

/-- The byte-reversed checksum (the CRC packed in the other byte order) is rejected unless it is a palindrome,
in which case the packet is unchanged. -/
theorem checksum_byte_reversed_rejected (d : Bytes) (hd : IsBytes d) (hacc : checksumOk d = true)
    (hne : (checksumField d).reverse ≠ checksumField d) :
    parsePacket (withChecksum d (checksumField d).reverse) = .valueError := by
  have hlen : (checksumField d).length = 4 := by
    have := length_of_checksumOk d hacc
    simp [checksumField]; omega
  refine checksum_field_exact d _ hd hacc ?_ (by simpa using hlen) hne
  intro b hb
  exact isBytes_checksumField d hd b (List.mem_reverse.mp hb)

/-- For every packet the library can build: with the header and chunk as built, the ONLY checksum bytes the parser
accepts are the little-endian pack of the CRC-32C of the packet with a zeroed field — in particular not the
big-endian pack `u32be crc` (unless the two coincide). -/
theorem built_checksum_exact (sp dp tag : Nat) (c : Chunk)
    (hsp : sp < 65536) (hdp : dp < 65536) (htag : tag < 4294967296) (hc : c.inRange = true)
    (v : Bytes) (hv : IsBytes v) (hl : v.length = 4) :
    let crc := crc32c (u16be sp ++ (u16be dp ++ (u32be tag ++ ([0, 0, 0, 0] ++ c.bytes))))
    (parsePacket (u16be sp ++ (u16be dp ++ (u32be tag ++ (v ++ c.bytes))))).isOk = true ↔ v = u32le crc := by
  intro crc
  have hpk : parsePacket (serializePacketRaw sp dp tag c) = .ok (sp, dp, tag, [c]) :=
    parsePacketG_serialize true sp dp tag c (by simp [headerInRange, hsp, hdp, htag]) hc
  have e2 : checksumField (serializePacketRaw sp dp tag c) = u32le crc := by
    simp [checksumField, serializePacketRaw, u16be, u32be, u32le, crc]
  have hf : IsBytes (checksumField (serializePacketRaw sp dp tag c)) := by
    rw [e2]
    intro b hb
    simp only [u32le, List.mem_cons, List.not_mem_nil, or_false] at hb
    rcases hb with h | h | h | h <;> subst h <;> omega
  have key := checksum_field_unique_aux (serializePacketRaw sp dp tag c) v hf (checksumOk_serialize sp dp tag c) (by rw [hpk]; rfl) hv hl
  have e1 : withChecksum (serializePacketRaw sp dp tag c) v = u16be sp ++ (u16be dp ++ (u32be tag ++ (v ++ c.bytes))) := by
    simp [withChecksum, serializePacketRaw, u16be, u32be, u32le]
  rw [e1, e2] at key
  exact key

example : checksumOk witnessD = true ∧ (checksumField witnessD).reverse ≠ checksumField witnessD ∧
    parsePacket (withChecksum witnessD (checksumField witnessD).reverse) = .valueError := by
  refine ⟨by decide +kernel, by decide, by decide +kernel⟩

/-! ## pinned-code defects (reproduced on the `fixed = false` model) and their fixes -/

/-- DESIGN §4 row 1: a zero parameter length makes `decode_params` loop forever; fixed: `ValueError`. -/
theorem decodeParamsOrig_hang :
    decodeParamsOrig [0, 1, 0, 0] = .hang ∧ decodeParams [0, 1, 0, 0] = .valueError := by decide

/-- … reachable from the network: HEARTBEAT chunk with that parameter, valid CRC. -/
def hangPacket : Bytes := [19, 136, 19, 136, 0, 0, 0, 7, 203, 65, 25, 120, 4, 0, 0, 8, 0, 1, 0, 0]
theorem parsePacketOrig_hang :
    parsePacketOrig hangPacket = .hang ∧ parsePacket hangPacket = .valueError := by
  constructor <;> decide +kernel

/-- DESIGN §4 row 2: a DATA chunk with a 1-byte body escapes `parse_packet` as `struct.error`;
fixed: `ValueError`. -/
def shortDataPacket : Bytes := [19, 136, 19, 136, 0, 0, 0, 7, 181, 84, 54, 132, 0, 3, 0, 5, 1, 0, 0, 0]
theorem parsePacketOrig_struct_error :
    parsePacketOrig shortDataPacket = .crash "struct.error" ∧ parsePacket shortDataPacket = .valueError := by
  constructor <;> decide +kernel

/-- RE-CONFIG parameter classes on short data: `struct.error` (pinned) vs `ValueError` (fixed). -/
theorem reconfig_short :
    RcParam.parseOrig .resetOut [0, 0, 0] = .crash "struct.error" ∧ RcParam.parse .resetOut [0, 0, 0] = .valueError ∧
    RcParam.parseOrig .addOut [0, 0, 0, 0, 0, 0, 0] = .crash "struct.error" ∧
    RcParam.parse .addOut [0, 0, 0, 0, 0, 0, 0] = .valueError ∧
    RcParam.parseOrig .resetResp [] = .crash "struct.error" ∧ RcParam.parse .resetResp [] = .valueError := by
  decide

/-! ## the fixed parsers are total (shared with C05) -/

/-- After the fixes `parse_packet` returns or raises `ValueError` on EVERY byte string: no `struct.error`,
no other exception, no non-termination. -/
theorem parsePacket_total (d : Bytes) : (∃ r, parsePacket d = .ok r) ∨ parsePacket d = .valueError := by
  have := parsePacket_benign d
  revert this
  cases parsePacket d <;> simp [Benign]

theorem decodeParams_total (body : Bytes) : (∃ r, decodeParams body = .ok r) ∨ decodeParams body = .valueError := by
  have := decodeParams_benign body
  revert this
  cases decodeParams body <;> simp [Benign]

theorem reconfig_parse_total (cls : RcCls) (data : Bytes) :
    (∃ r, RcParam.parse cls data = .ok r) ∨ RcParam.parse cls data = .valueError := by
  have := rcParse_benign cls data
  revert this
  cases RcParam.parse cls data <;> simp [Benign]

end Aiortc.Props.C08
