import Aiortc.Model.Sctp.WireOps
import Aiortc.Lemmas.C08.WireOps
import Aiortc.Props.C08
/-!
# C08, round 2 — the round trip does not depend on the history of the objects involved

`Props/C08.lean` states the round trip for *values*.  The library's chunks are mutable *objects*: the same
object is serialised, overwritten and serialised again (a sweep over user-data lengths, a retransmission
after re-stamping), the list a parser returned is appended to by its owner and the same bytes arrive again.
`Model/Sctp/WireOps.lean` is the reference semantics of such histories (a pool of slots and the operations
`new / set / hostile / ser / bytes / parse / decparams / rcparse`); the `ops` correspondence of the harness
runs the same histories on live Python objects and compares every step.

The theorems below say what the reference semantics guarantees after an ARBITRARY history `hist`:
serialising observes the current field values only, parsing observes the bytes only, and the round trip of
`Props/C08.lean` holds for re-used objects and for objects whose siblings were modified by a hostile owner.
-/
namespace Aiortc.Props.C08Ops
open Aiortc Aiortc.Sctp.Wire Aiortc.Sctp.WireOps Aiortc.Lemmas.C08.WireOps

/-- **Serialising observes the current field values only.**  Whatever happened before (`hist`: the object
in slot `s` may have been built with other values, serialised, parsed into, modified …), once every field
of the live object has been overwritten with the fields of `c`, `serialize_packet` gives exactly what it
gives for a fresh `c`. -/
theorem ops_ser_current_value (pool : Pool) (hist : List Op) (s : Nat) (c : Chunk) (sp dp tag : Nat) :
    run (exec pool hist) [.set s (.chunk c), .ser s sp dp tag] =
      [.done, .bytes (serializePacket sp dp tag c)] := by
  simp [run, step, Pool.set_same]

/-- … the same for `bytes(obj)` of every kind of object (chunk, RE-CONFIG parameter, parameter list). -/
theorem ops_bytes_current_value (pool : Pool) (hist : List Op) (s : Nat) (v : Val) :
    run (exec pool hist) [.set s v, .bytes s] = [.done, .bytes v.bytes] := by
  simp [run, step, Pool.set_same]

/-- **Parsing observes the bytes only**: the observation of a parse step is the same in every pool, i.e.
after every history — in particular after the owner of an earlier result modified it. -/
theorem ops_parse_pure (pool pool' : Pool) (d : Bytes) (b b' t : Nat) :
    (step pool (.parse d b)).2 = .parsed (parsePacket d) ∧
    (step pool' (.parse d b')).2 = (step pool (.parse d b)).2 ∧
    (step pool' (.decparams d b')).2 = (step pool (.decparams d b)).2 ∧
    (step pool' (.rcparse t d b')).2 = (step pool (.rcparse t d b)).2 := by
  refine ⟨rfl, rfl, rfl, ?_⟩
  simp only [step]
  cases rcClassOf t <;> rfl

/-- Sequence form: parse, let the owner modify any slot in any way any number of times (and do anything
else: `mid` is arbitrary), parse the same bytes again — the last observation equals the first. -/
theorem ops_reparse_same (pool : Pool) (d : Bytes) (b b' : Nat) (mid : List Op) :
    (run pool ([.parse d b] ++ mid ++ [.parse d b'])).getLast? = (run pool [.parse d b]).head? := by
  have hrun : ∀ (ops : List Op) (p : Pool) (o : Op),
      run p (ops ++ [o]) = run p ops ++ [(step (exec p ops) o).2] := by
    intro ops
    induction ops with
    | nil => intro p o; simp [run, exec]
    | cons x xs ih => intro p o; simp [run, exec, ih]
  rw [hrun, List.getLast?_concat]
  simp [run, step]

/-- **Round trip for re-used objects.**  After an arbitrary history, overwrite the live object in slot `s`
with in-range field values `c`, serialise it, parse the bytes (into slot `base`), serialise what was
parsed: the packet parses back to exactly `c` and re-serialises to identical bytes. -/
theorem ops_reuse_roundtrip (pool : Pool) (hist : List Op) (s base : Nat) (c : Chunk) (sp dp tag : Nat)
    (hsp : sp < 65536) (hdp : dp < 65536) (htag : tag < 4294967296) (hc : c.inRange = true) :
    ∃ bs, run (exec pool hist) [.set s (.chunk c), .ser s sp dp tag, .parse bs base, .ser base sp dp tag] =
      [.done, .bytes (.ok bs), .parsed (.ok (sp, dp, tag, [c])), .bytes (.ok bs)] := by
  obtain ⟨bs, hser, hparse⟩ := C08.packet_roundtrip sp dp tag c hsp hdp htag hc
  refine ⟨bs, ?_⟩
  simp [run, step, Pool.set_same, hser, hparse, Pool.storeChunks]

/-- After `parse_packet` succeeded, slot `base + i` holds the `i`-th parsed chunk, so serialising that slot
gives `serialize_packet` of exactly that chunk … -/
theorem ops_parsed_slot_reserialize (pool : Pool) (d : Bytes) (base i sp dp tag sp' dp' tag' : Nat)
    (cs : List Chunk) (hp : parsePacket d = .ok (sp, dp, tag, cs)) (hi : i < cs.length) :
    run pool [.parse d base, .ser (base + i) sp' dp' tag'] =
      [.parsed (.ok (sp, dp, tag, cs)), .bytes (serializePacket sp' dp' tag' cs[i])] := by
  simp [run, step, hp, storeChunks_get cs pool base i hi]

/-- … and after the owner modified it (`hostile`, any `k`), serialising gives the wire image of the MODIFIED
values, while parsing the same bytes again still gives the original ones. -/
theorem ops_hostile_then_ser (pool : Pool) (d : Bytes) (base base' i k sp dp tag sp' dp' tag' : Nat)
    (cs : List Chunk) (hp : parsePacket d = .ok (sp, dp, tag, cs)) (hi : i < cs.length) :
    run pool [.parse d base, .hostile (base + i) k, .ser (base + i) sp' dp' tag', .parse d base'] =
      [.parsed (.ok (sp, dp, tag, cs)), .done, .bytes (serializePacket sp' dp' tag' (hostileChunk k cs[i])),
       .parsed (.ok (sp, dp, tag, cs))] := by
  simp [run, step, hp, storeChunks_get cs pool base i hi, Pool.set_same, Val.hostile]

/-- The hostile owner keeps every field in wire range (so the step after it is a real serialisation, not a
`struct.error`): flags, 16- and 32-bit fields are reduced modulo their width. -/
theorem hostile_fields_in_range (k x : Nat) : h8 k x < 256 ∧ h16 k x < 65536 ∧ h32 k x < 4294967296 := by
  simp only [h8, h16, h32]; omega

/-- The hypotheses of `ops_reuse_roundtrip` / `ops_hostile_then_ser` are satisfiable, with a non-trivial history. -/
example : ∃ bs, run (exec Pool.empty [.new 0 (.chunk (.data 3 9 9 9 51 [1, 2, 3])), .ser 0 1 2 3, .hostile 0 5])
    [.set 0 (.chunk (.data 3 1 2 3 51 [0x61])), .ser 0 5000 5000 7, .parse bs 1, .ser 1 5000 5000 7] =
      [.done, .bytes (.ok bs), .parsed (.ok (5000, 5000, 7, [.data 3 1 2 3 51 [0x61]])), .bytes (.ok bs)] :=
  ops_reuse_roundtrip _ _ 0 1 _ 5000 5000 7 (by decide) (by decide) (by decide) (by decide)

example : hostileChunk 1 (.params .heartbeat 0 [(1, [0, 1])]) = .params .heartbeat 1 [(1, [0, 1]), (1, [1])] := by
  decide

end Aiortc.Props.C08Ops
