import Aiortc.Lemmas.SdpSessionAll
/-! # C09 — session descriptions survive parse/serialise round trips

Theorems about the executable model `Aiortc.Model.Sdp` (mirror of `src/aiortc/sdp.py`, tied to the real
code by `harness/props/C09.py`).  Proofs live in `Lemmas/Sdp.lean` (L1), `Lemmas/SdpAttr.lean` (L2),
`Lemmas/SdpMedia.lean` + `Lemmas/SdpMediaAll.lean` (L3); this file states the property theorems.
Everything is for ALL values / ALL texts of the stated shape:

* L1: `int(str(i)) = i`; `split()` against `" ".join` on whitespace-free tokens.
* L2 round trips, value → text → value, for every well-formed value of every attribute codec:
  ICE candidates, fmtp parameters, groups (str / int items), rtpmap, rtcp-fb, extmap, fingerprint,
  setup/role, ssrc lines, sctpmap, connection addresses.
* L2 idempotence, text → value → text → value, for EVERY text the parser accepts (no well-formedness
  hypothesis): candidates, fmtp parameters, groups.
* L3 `media_roundtrip`: for EVERY structurally valid media section, `MediaDescription.__str__` followed by
  the media part of `SessionDescription.parse` recovers every field.
* L3 `session_roundtrip` / `generated_fixed_point`: for EVERY structurally valid `SessionDescription` `d`, `str(d)`
  succeeds, parsing its lines recovers `d` (every field), and — when no field contains a line-break character —
  `parse(str(d)) = d` and `str(parse(str(d))) = str(d)` on the text itself.
* NOT proved (stated as a `Prop` below, evaluated by the oracle on every case): whole-text idempotence for
  ARBITRARY accepted text (proved attribute-wise only). See notes/C09.md. -/
namespace Aiortc.Props.C09
open Aiortc Aiortc.Model.Sdp Aiortc.Lemmas.C09

/-! ### L1 -/

theorem int_roundtrip (i : Int) : pyInt (showInt i) = some i := pyInt_showInt i

theorem split_join_tokens (toks : List Str) (h : ∀ t ∈ toks, Tok t) : splitWs (unwords toks) = toks :=
  splitWs_unwords toks h

/-! ### L2: value → text → value, all well-formed values -/

/-- Clause "ICE candidate lines round-trip exactly", direction value → line → value, for EVERY
well-formed candidate (host/srflx/relay, udp/tcp, with or without raddr/rport/tcptype). -/
theorem candidate_roundtrip (c : Candidate) (h : WFCand c) : candidateFromSdp (candidateToSdp c) = .ok c :=
  Lemmas.C09.candidate_roundtrip c h

theorem params_roundtrip (p : Params) (h : WFParams p) : parametersFromSdp (parametersToSdp p) = .ok p :=
  Lemmas.C09.params_roundtrip p h

theorem group_roundtrip (dest : List (Group Str)) (g : Group Str) (hs : Tok g.semantic) (hi : ∀ t ∈ g.items, Tok t) :
    parseGroupStr dest (some (groupToStr id g)) = .ok (dest ++ [g]) :=
  Lemmas.C09.group_roundtrip dest g hs hi

theorem ssrc_group_roundtrip (dest : List (Group Int)) (g : Group Int) (hs : Tok g.semantic) :
    parseGroupInt dest (some (groupToStr showInt g)) = .ok (dest ++ [g]) :=
  Lemmas.C09.ssrc_group_roundtrip dest g hs

theorem rtpmap_roundtrip (kind name : Str) (c : Codec) (h : WFCodec kind name c) :
    ∃ s, codecStr c = .ok s ∧ parseRtpmap kind (some (showInt c.payloadType ++ ' ' :: s)) = .ok c :=
  Lemmas.C09.rtpmap_roundtrip kind name c h

theorem rtcpfb_roundtrip (pt : Int) (f : Feedback) (h : WFFeedback f) :
    splitFb (fbValue pt f) = (showInt pt, some (f.typ, f.parameter)) :=
  Lemmas.C09.rtcpfb_roundtrip pt f h

theorem extmap_roundtrip (h : HeaderExt) (hu : Tok h.uri) : parseExtmap (some (extmapValue h)) = .ok h :=
  Lemmas.C09.extmap_roundtrip h hu

theorem fingerprint_roundtrip (f : Fingerprint) (ha : Tok f.algorithm) (hv : Tok f.value) :
    parseFingerprint (some (fingerprintValue f)) = .ok f :=
  Lemmas.C09.fingerprint_roundtrip f ha hv

/-- DTLS role ↔ `a=setup:` value, over the regenerated tables. -/
theorem setup_roundtrip : ∀ p ∈ Gen.DTLS_ROLE_SETUP,
    setupOfRole p.1.toList = .ok p.2.toList ∧ parseSetup (some p.2.toList) = .ok p.1.toList :=
  Lemmas.C09.setup_roundtrip

theorem ssrc_line_roundtrip (id : Int) (attr v : Str) (h : ':' ∉ attr) :
    parseSsrcLine (some (showInt id ++ ' ' :: (attr ++ ':' :: v))) = .ok (id, attr, v) :=
  Lemmas.C09.ssrc_line_roundtrip id attr v h

theorem sctpmap_roundtrip (k : Int) (v : Str) : parseSctpmap (some (showInt k ++ ' ' :: v)) = .ok (k, v) :=
  Lemmas.C09.sctpmap_roundtrip k v

theorem ipaddress_roundtrip (a : Str) (hne : a ≠ []) (hsp : ' ' ∉ a) : ipaddressFromSdp (ipaddressToSdp a) = .ok a :=
  Lemmas.C09.ipaddress_roundtrip a hne hsp

/-- Whatever `parse_group` accepts consists of tokens, hence round-trips. -/
theorem group_idempotent (v : Str) (gs : List (Group Str)) (h : parseGroupStr [] (some v) = .ok gs) :
    ∀ g ∈ gs, parseGroupStr [] (some (groupToStr id g)) = .ok [g] :=
  Lemmas.C09.group_idempotent v gs h

/-! ### L3: a whole media section -/

/-- **Structured round trip, media level**: for EVERY structurally valid media section `m`,
`MediaDescription.__str__` succeeds and the media part of `SessionDescription.parse` applied to its lines
gives back exactly `m` (kind, port, profile, formats, host, direction, header extensions, mid, msid, rtcp,
SSRCs and SSRC groups, codecs with parameters and feedback, sctpmap / sctp-port / max-message-size,
candidates, end-of-candidates, ICE credentials and options, DTLS fingerprints and role). -/
theorem media_roundtrip (m : Media) (hw : WFMedia m) :
    ∃ lines, mediaLines m = .ok lines ∧ parseMedia { iceLite := m.ice.iceLite } lines = .ok m :=
  Lemmas.C09.media_roundtrip m hw

/-- The line printed for a candidate, fed to the media-level line parser, appends exactly that candidate. -/
theorem candidate_line_in_media (m : Media) (c : Candidate) (h : WFCand c) :
    mediaLine m (lit "a=candidate:" ++ candidateToSdp c) = .ok { m with candidates := m.candidates ++ [c] } :=
  Lemmas.C09.candidate_line_in_media m c h

/-! ### L3: a whole session description -/

/-- **Structured round trip, session level, on lists of lines**: for EVERY structurally valid
`SessionDescription`, `__str__` succeeds with text `"\r\n".join(lines) + "\r\n"`, and parsing those lines
(`grouplines`, session-level lines, defaults folded into the media sections, every media section with both passes)
gives back the description — every field. -/
theorem session_roundtrip (s : Session) (hw : WFSession s) :
    ∃ ls, sessionToStr s = .ok (unlines ls) ∧ parseLines ls = .ok s :=
  Lemmas.C09.session_roundtrip s hw

/-- `("\r\n".join(lines) + "\r\n").splitlines() = lines` when no line contains a line-break character. -/
theorem splitlines_unlines (ls : List Str) (h : ∀ l ∈ ls, NoBreak l) : splitlines (unlines ls) = ls :=
  Lemmas.C09.splitlines_unlines ls h

/-- **Clause 1 of C09 for structurally valid descriptions**: `str(d)` succeeds; if no printed line contains a
line-break character (i.e. no field does), parsing the text recovers `d` — every field — and the text is a fixed
point of parse-then-serialise. -/
theorem generated_fixed_point (s : Session) (hw : WFSession s) :
    ∃ ls, sessionToStr s = .ok (unlines ls) ∧
      ((∀ l ∈ ls, NoBreak l) → parse (unlines ls) = .ok s ∧ roundTrip (unlines ls) = .ok (unlines ls)) :=
  Lemmas.C09.generated_fixed_point s hw

/-! ### regenerated tables -/

theorem fmtp_int_const : fmtpIntParams =
    ["apt", "max-fr", "max-fs", "maxplaybackrate", "minptime", "stereo", "useinbandfec"].map String.toList := by decide
theorem directions_const : directions = ["inactive", "sendonly", "recvonly", "sendrecv"].map String.toList := by decide
theorem ssrc_attrs_const : ssrcInfoAttrs = ["cname", "msid", "mslabel", "label"].map String.toList := by decide
theorem forbidden_pt_const : (Gen.FORBIDDEN_PT_LO, Gen.FORBIDDEN_PT_HI) = (72, 77) := by decide

/-! ### candidates: exact line round trip and idempotence on every accepted line -/

/-- Canonically spaced candidate lines: what `candidate_to_sdp` prints for well-formed candidates
(tokens separated by single spaces, decimal numbers, `typ`, then optional `raddr`/`rport`/`tcptype` in
that order). -/
def CanonCandLine (l : Str) : Prop := ∃ c, WFCand c ∧ l = candidateToSdp c

/-- Clause "ICE candidate lines round-trip exactly", direction line → value → line. -/
theorem candidate_line_roundtrip (l : Str) (h : CanonCandLine l) :
    (candidateFromSdp l).bind (fun c => .ok (candidateToSdp c)) = .ok l := by
  obtain ⟨c, hc, rfl⟩ := h
  rw [candidate_roundtrip c hc]; rfl

/-- For ANY line `candidate_from_sdp` accepts (extra blanks, unknown extension attributes, signs,
underscores …), one round of parse-and-serialise reaches a fixed point: the printed line parses to
the same candidate, and prints to the same line. -/
theorem candidate_idempotent (l : Str) (c : Candidate) (h : candidateFromSdp l = .ok c) :
    candidateFromSdp (candidateToSdp c) = .ok c :=
  candidate_roundtrip c (candidate_accepted_wf l c h)

/-- For ANY fmtp text `parameters_from_sdp` accepts, the printed dictionary parses to itself. -/
theorem params_idempotent (s : Str) (p : Params) (h : parametersFromSdp s = .ok p) :
    parametersFromSdp (parametersToSdp p) = .ok p :=
  params_roundtrip p (params_accepted_wf s p h)

/-! ### whole-text idempotence (stated, NOT proved: checked by the oracle on every accepted text) -/

/-- "For any SDP text the parser accepts, one round of parse-and-serialise is idempotent." -/
def TextIdempotent : Prop :=
  ∀ t t1, roundTrip t = .ok t1 → roundTrip t1 = .ok t1

/-! ### non-vacuity -/

def exCand : Candidate :=
  { foundation := "f1".toList, component := 1, protocol := "tcp".toList, priority := 2130706431,
    ip := "192.168.1.2".toList, port := 9, typ := "srflx".toList,
    relatedAddress := some "10.0.0.1".toList, relatedPort := some 0, tcpType := some "active".toList }

example : WFCand exCand :=
  ⟨⟨by decide, by decide⟩, ⟨by decide, by decide⟩, ⟨by decide, by decide⟩, ⟨by decide, by decide⟩,
   by intro a h; simp [exCand] at h; subst h; exact ⟨by decide, by decide⟩,
   by intro a h; simp [exCand] at h; subst h; exact ⟨by decide, by decide⟩⟩

example : candidateToSdp exCand =
    "f1 1 tcp 2130706431 192.168.1.2 9 typ srflx raddr 10.0.0.1 rport 0 tcptype active".toList := by decide

example : candidateFromSdp "0  1 UDP 2122252543 192.168.99.58 36553 typ host generation 0".toList =
    .ok { foundation := "0".toList, component := 1, protocol := "UDP".toList, priority := 2122252543,
          ip := "192.168.99.58".toList, port := 36553, typ := "host".toList } := by decide

def exParams : Params :=
  [("apt".toList, .int 96), ("profile-level-id".toList, .str "42e01f".toList), ("cbr".toList, .none)]

example : WFParams exParams :=
  ⟨by decide, by decide, by
    intro kv h; simp [exParams] at h
    rcases h with h | h | h <;> subst h
    · exact ⟨by decide, by decide, by decide⟩
    · exact ⟨by decide, by decide, ⟨by decide, by decide⟩⟩
    · exact ⟨by decide, by decide, trivial⟩⟩

example : parametersToSdp exParams = "apt=96;profile-level-id=42e01f;cbr".toList := by decide

example : WFCodec "audio".toList "opus".toList
    { mimeType := "audio/opus".toList, clockRate := 48000, channels := some 2, payloadType := 96 } :=
  ⟨by decide, by decide, by decide, by decide, rfl, rfl⟩

example : WFFeedback ⟨"nack".toList, some "pli".toList⟩ := ⟨by decide, by intro p h; simp at h; subst h; simp⟩

example : Tok "BUNDLE".toList := ⟨by decide, by decide⟩

example : parse "v=0\r\nm=audio 9 RTP/AVP 0\r\na=mid:0\r\n".toList = .ok
    { media := [{ kind := "audio".toList, port := 9, profile := "RTP/AVP".toList, fmt := .ints [0],
                  muxId := some "0".toList, ice := {} }] } := by decide

end Aiortc.Props.C09
