import Aiortc.Props.C09
/-! Non-vacuity of `media_roundtrip` (C09): a concrete audio section with codec, feedback, fmtp, ssrc, ssrc-group,
extmap, rtcp, candidate, ICE and DTLS data satisfies `WFMedia`, and its printed lines are the expected ones. -/
namespace Aiortc.Props.C09
open Aiortc Aiortc.Model.Sdp Aiortc.Lemmas.C09

def exCodec : Codec :=
  { mimeType := "audio/opus".toList, clockRate := 48000, channels := some 2, payloadType := 96,
    rtcpFeedback := [⟨"nack".toList, some "pli".toList⟩],
    parameters := [("minptime".toList, .int 10), ("useinbandfec".toList, .int 1)] }

def exMedia : Media :=
  { kind := "audio".toList, port := 9, profile := "UDP/TLS/RTP/SAVPF".toList, fmt := .ints [96],
    host := some "0.0.0.0".toList, direction := some "sendrecv".toList, msid := some "s t".toList,
    rtcpPort := some 9, rtcpHost := some "0.0.0.0".toList, rtcpMux := true,
    ssrc := [{ ssrc := 1234, cname := some "cn".toList }],
    ssrcGroup := [⟨"FID".toList, [1234, 5678]⟩],
    headerExtensions := [⟨1, "urn:ietf:params:rtp-hdrext:sdes:mid".toList⟩],
    muxId := some "0".toList, codecs := [exCodec],
    dtls := some { fingerprints := [⟨"sha-256".toList, "AA:BB".toList⟩], role := some "auto".toList },
    ice := { usernameFragment := some "uf".toList, password := some "pw".toList, iceLite := false },
    candidates := [exCand], candidatesComplete := true, iceOptions := some "trickle".toList }

instance (t : Str) : Decidable (Tok t) := by unfold Tok; infer_instance

theorem exMedia_wf : WFMedia exMedia where
  header := ⟨by decide, by decide, by decide, by
    show (_ ∨ _) ∧ _ ∧ _
    exact ⟨Or.inl rfl, by decide, by intro pt h; simp at h; subst h; decide⟩⟩
  body :=
    { host := by intro h e; simp [exMedia] at e; subst e; exact ⟨by decide, by decide⟩
      direction := by intro h e; simp [exMedia] at e; subst e; decide
      ext := by intro h e; simp [exMedia] at e; subst e; decide
      mid := ⟨_, rfl⟩
      msid := by intro h e; simp [exMedia] at e; subst e; decide
      rtcp_none := by intro e; simp [exMedia] at e
      rtcp_host := by intro h e; simp [exMedia] at e; subst e; exact ⟨by decide, by decide⟩
      ssrcGroup := by intro h e; simp [exMedia] at e; subst e; decide
      ssrc := by intro h e; simp [exMedia] at e; subst e; exact Or.inl (by decide)
      ssrc_nodup := by decide
      sctpmap_nodup := by decide
      cands := by
        intro c e; simp [exMedia] at e; subst e
        exact ⟨by decide, by decide, by decide, by decide,
          by intro a h; simp [exCand] at h; subst h; decide,
          by intro a h; simp [exCand] at h; subst h; decide⟩
      dtls := by
        intro d e; simp [exMedia] at e; subst e
        refine ⟨by intro f hf; simp at hf; subst hf; exact ⟨by decide, by decide⟩, "auto".toList, "actpass".toList, rfl, by decide, by decide⟩ }
  codecs := by
    intro c e
    have hc : c = exCodec := by simpa [exMedia] using e
    subst hc
    show WFCodecFull "audio".toList exCodec
    have base : WFCodec "audio".toList "opus".toList (strip exCodec) :=
      { mime := by decide, cname := by decide, name_slash := by decide, chan := by decide, fb := rfl, params := rfl }
    have hfb : ∀ f ∈ exCodec.rtcpFeedback, WFFeedback f := by
      intro f hf
      have : f = ⟨"nack".toList, some "pli".toList⟩ := List.mem_singleton.mp hf
      subst this
      exact ⟨by decide, by intro p hp; cases hp; decide⟩
    have hpar : WFParams exCodec.parameters := by
      refine ⟨by decide, by decide, ?_⟩
      intro kv hkv
      rcases List.mem_cons.mp hkv with h | h
      · subst h; exact ⟨by decide, by decide, by decide⟩
      · have h' := List.mem_singleton.mp h
        subst h'; exact ⟨by decide, by decide, by decide⟩
    exact ⟨⟨_, base⟩, hfb, Or.inr ⟨hpar, by decide⟩⟩
  codecs_nodup := by decide

example : mediaLines exMedia = .ok (
    ["m=audio 9 UDP/TLS/RTP/SAVPF 96", "c=IN IP4 0.0.0.0", "a=sendrecv",
     "a=extmap:1 urn:ietf:params:rtp-hdrext:sdes:mid", "a=mid:0", "a=msid:s t", "a=rtcp:9 IN IP4 0.0.0.0", "a=rtcp-mux",
     "a=ssrc-group:FID 1234 5678", "a=ssrc:1234 cname:cn", "a=rtpmap:96 opus/48000/2", "a=rtcp-fb:96 nack pli",
     "a=fmtp:96 minptime=10;useinbandfec=1",
     "a=candidate:f1 1 tcp 2130706431 192.168.1.2 9 typ srflx raddr 10.0.0.1 rport 0 tcptype active",
     "a=end-of-candidates", "a=ice-ufrag:uf", "a=ice-pwd:pw", "a=ice-options:trickle",
     "a=fingerprint:sha-256 AA:BB", "a=setup:actpass"].map String.toList) := by decide


def exSession : Session :=
  { version := 0, origin := some "- 3900000000 3900000000 IN IP4 0.0.0.0".toList, host := some "0.0.0.0".toList,
    group := [⟨"BUNDLE".toList, ["0".toList]⟩], msidSemantic := [⟨"WMS".toList, ["*".toList]⟩], media := [exMedia] }

example : WFSession exSession where
  origin := ⟨_, rfl, by
    intro c hc
    rw [show "- 3900000000 3900000000 IN IP4 0.0.0.0".toList.getLast? = some '0' by decide] at hc
    cases hc; decide⟩
  name := by
    intro c hc
    rw [show exSession.name.getLast? = some '-' by decide] at hc
    cases hc; decide
  time := by
    intro c hc
    rw [show exSession.time.getLast? = some '0' by decide] at hc
    cases hc; decide
  host := by intro h e; cases e; exact ⟨by decide, by decide⟩
  group := by intro g hg; have := List.mem_singleton.mp hg; subst this; exact ⟨by decide, by decide⟩
  msidSemantic := by intro g hg; have := List.mem_singleton.mp hg; subst this; exact ⟨by decide, by decide⟩
  media := by intro m hm; have := List.mem_singleton.mp hm; subst this; exact exMedia_wf
  lite := by intro m hm; have := List.mem_singleton.mp hm; subst this; decide

end Aiortc.Props.C09
