import Aiortc.Model.Sdp.Ops
/-! # C09 — the codec is history-free (reference semantics of `Model/Sdp/Ops.lean`)

"Parsing recovers every field that was put in" and "candidate lines round-trip exactly" are statements about texts and
values.  The implementation works with mutable objects, so they additionally require that a result depends on the text
ALONE.  In the model this is immediate - the model is pure - and the theorems below only spell out, for arbitrary
histories `hist` of steps (parses of other texts, a hostile owner, values stored by the owner, the same candidate line
decoded for other m-sections), what the `ops` correspondence of harness/props/C09.py then holds the real objects to. -/
namespace Aiortc.Props.C09Ops
open Aiortc Aiortc.Model.Sdp Aiortc.Model.Sdp.Ops

theorem exec_length (p : Pool) (ops : List Op) : (exec p ops).length = p.length := by
  induction ops generalizing p with
  | nil => rfl
  | cons op ops ih =>
    have h1 : (step p op).1.length = p.length := by cases op <;> simp [step]
    simpa [exec, h1] using ih (step p op).1

theorem run_append (p : Pool) (a b : List Op) : run p (a ++ b) = run p a ++ run (exec p a) b := by
  induction a generalizing p with
  | nil => rfl
  | cons op ops ih => simp [run, exec, ih]

/-- After ANY history, parsing `t` shows `parse t` and `str(parse t)` - nothing else. -/
theorem ops_parse_pure (p : Pool) (hist : List Op) (i : Nat) (t : Str) :
    run p (hist ++ [.parse i t]) = run p hist ++ [.both (parse t) (roundTrip t)] := by
  simp [run_append, run, step]

/-- Parse, then anything at all (the owner wrecks the result, other texts are parsed, values are stored), then parse
the same text again: the same observation. -/
theorem ops_reparse_same (p : Pool) (hist mid : List Op) (i j : Nat) (t : Str) :
    run p (hist ++ [.parse i t] ++ mid ++ [.parse j t]) =
      run p (hist ++ [.parse i t] ++ mid) ++ [.both (parse t) (roundTrip t)] := by
  simp [run_append, run, step]

/-- The same for candidate lines, whether they arrive in a description, alone, or through the signalling helper. -/
theorem ops_cand_pure (p : Pool) (hist : List Op) (i : Nat) (l : Str) :
    run p (hist ++ [.cparse i l]) = run p hist ++ [.cboth (candidateFromSdp l) none] := by
  simp [run_append, run, step]

/-- Serialising looks at the value the owner stored last, whatever the object carried (and printed) before. -/
theorem ops_str_current_value (p : Pool) (hist : List Op) (i : Nat) (v : Val) (hi : i < p.length) :
    run p (hist ++ [.own i v, .str i]) = run p hist ++ [.quiet, strOf v] := by
  have hl : i < (exec p hist).length := by rw [exec_length]; exact hi
  simp [run_append, run, step, hl]

/-- A description that was just parsed serialises to `str(parse t)`: the two halves of the `both` observation agree. -/
theorem ops_parsed_then_str (p : Pool) (hist : List Op) (i : Nat) (t : Str) (s : Session) (hi : i < p.length)
    (h : parse t = .ok s) :
    run p (hist ++ [.parse i t, .str i]) =
      run p hist ++ [.both (.ok s) (sessionToStr s), .text (sessionToStr s) none] := by
  have hl : i < (exec p hist).length := by rw [exec_length]; exact hi
  have hr : roundTrip t = sessionToStr s := by
    simp only [roundTrip, h]; rfl
  simp [run_append, run, step, hl, h, hr, valOfParse, strOf]

/-- What the owner does to one slot (`hostile`, `own`, `assign`, a new parse) is invisible in every other slot. -/
theorem ops_slots_independent (p : Pool) (i j : Nat) (op : Op) (hij : i ≠ j)
    (hop : op = .hostile j ∨ (∃ v, op = .own j v) ∨ (∃ t, op = .assign j t) ∨ (∃ t, op = .parse j t) ∨
      (∃ l, op = .cparse j l) ∨ (∃ l m x, op = .trickle j l m x)) :
    (step (step p op).1 (.str i)).2 = (step p (.str i)).2 := by
  have hji : j ≠ i := fun h => hij h.symm
  rcases hop with h | ⟨v, h⟩ | ⟨t, h⟩ | ⟨t, h⟩ | ⟨l, h⟩ | ⟨l, m, x, h⟩ <;> subst h <;>
    simp [step, List.getD_eq_getElem?_getD, List.getElem?_set_ne hji]

/-- The same line decoded for mid `m1` and later for mid `m2` (other slot): the first candidate still carries `m1`,
and both print the same line. -/
theorem ops_trickle_keeps_mid (p : Pool) (i j : Nat) (l m1 m2 : Str) (x1 x2 : Int) (c : Candidate)
    (hij : i ≠ j) (hi : i < p.length) (hj : j < p.length) (h : candidateFromSdp l = .ok c) :
    run p [.trickle i l m1 x1, .trickle j l m2 x2, .str i, .str j] =
      [.cboth (.ok c) (some (m1, x1)), .cboth (.ok c) (some (m2, x2)),
       .text (.ok (candidateToSdp c)) (some (m1, x1)), .text (.ok (candidateToSdp c)) (some (m2, x2))] := by
  have hji : j ≠ i := fun h => hij h.symm
  simp [run, step, h, valOfCand, strOf, List.getD_eq_getElem?_getD, List.getElem_set_ne hji, hi, hj]

/-- Overwriting every field with the fields of `parse t2` and printing gives `str(parse t2)`; overwriting back gives
the first text again (the "edit, serialise, edit back, serialise" sequence). -/
theorem ops_assign_roundtrip (p : Pool) (hist : List Op) (i : Nat) (t1 t2 : Str) (s1 s2 : Session) (hi : i < p.length)
    (h1 : parse t1 = .ok s1) (h2 : parse t2 = .ok s2) :
    run (exec p hist) [.parse i t1, .assign i t2, .str i, .assign i t1, .str i] =
      [.both (.ok s1) (roundTrip t1), .quiet, .text (sessionToStr s2) none, .quiet, .text (sessionToStr s1) none] := by
  have hl : i < (exec p hist).length := by rw [exec_length]; exact hi
  simp [run, step, hl, h1, h2, valOfParse, assignVal, strOf]

/-- Non-vacuity: a four-slot pool, a history with a hostile owner, the hypotheses of the theorems above hold. -/
example : run (List.replicate 4 Val.none) [.parse 0 [], .hostile 0, .str 0, .str 1] =
    [.both (parse []) (roundTrip []), .quiet, .undefined, .quiet] := by
  have h : parse [] = .ok {} := by decide
  simp [run, step, h, valOfParse, hostileVal, strOf]

end Aiortc.Props.C09Ops
