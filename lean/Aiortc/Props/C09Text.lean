import Aiortc.Lemmas.C09.TextIdem
import Aiortc.Props.C09
/-! # C09, clause 2 — "for ANY SDP text the parser accepts, one round of parse-and-serialise is idempotent"

`Props/C09.lean` left this clause as `def TextIdempotent : Prop`.  It is proved here, about the same executable model
(`Model/Sdp/{Lex,Attr,Session}.lean`), with no hypothesis on the text:

1. `parse_output_canonical`: whatever `parse` returns is a `ParsedSession` (`Lemmas/C09/Parsed*.lean`: numeric fields
   are numbers, tokens are tokens, hosts have no blank, DTLS roles are in the table, payload types / ssrc ids / sctpmap
   keys are distinct, DTLS parameters without a role are gone, no field contains a line-break character, …).  This
   predicate is weaker than `WFSession`: it allows everything the parser really produces and the printer does not
   carry one-to-one (`origin = None`, `mid = None`, `msid = ""`, `rtcp_mux` without rtcp port, ssrc entries without a
   known attribute, audio channel counts other than 1/2, empty rtcp-fb parameters, fmtp dictionaries that print as
   `""`, media kinds containing "/").
2. `normS` maps such a value to its normal form; `print_norm_invariant`: printing does not see the difference;
   `canonical_norm_wf`: the normal form is structurally valid (`WFSession`), so `session_roundtrip` applies to it.
3. `canonical_fixed_point`: printing a canonical value and parsing the text back is the normalisation;
   `printed_lines_nobreak` supplies the `splitlines` side condition.
4. `text_idempotent : TextIdempotent`, and the stronger `accepted_text_roundtrip`. -/
namespace Aiortc.Props.C09Text
open Aiortc Aiortc.Model.Sdp Aiortc.Lemmas.C09

/-! ### media-section level -/

/-- Whatever the media-section parser returns (header regex, first pass, DTLS fix-up, second pass) is canonical, for
any session-level defaults the session lines can produce and any lines `splitlines` can produce. -/
theorem media_output_canonical (d : Defaults) (lines : List Str) (m : Media) (hd : DefaultsOk d)
    (hl : ∀ l ∈ lines, NoBreak l) (h : parseMedia d lines = .ok m) :
    ParsedMedia m ∧ DtlsRole m ∧ m.ice.iceLite = d.iceLite :=
  parseMedia_inv d lines m hd hl h

/-- Media-section fixed point: a canonical media section prints (no exception), the printed lines parse to its
normal form, the normal form prints to the same lines, and no printed line contains a line break. -/
theorem media_fixed_point (m : Media) (hp : ParsedMedia m) (hr : DtlsRole m) :
    ∃ ls, mediaLines m = .ok ls ∧ parseMedia { iceLite := m.ice.iceLite } ls = .ok (normM m) ∧
      mediaLines (normM m) = .ok ls ∧ ∀ l ∈ ls, NoBreak l := by
  obtain ⟨ls, h1, h2⟩ := Lemmas.C09.media_roundtrip (normM m) (wfMedia_norm m hp hr)
  rw [mediaLines_normM] at h1
  exact ⟨ls, h1, h2, by rw [mediaLines_normM]; exact h1, mediaLines_nb m hp ls h1⟩

/-- Media-section idempotence for ANY accepted group of lines: parse → print → parse → print gives the same lines. -/
theorem media_idempotent (d : Defaults) (lines : List Str) (m : Media) (hd : DefaultsOk d)
    (hl : ∀ l ∈ lines, NoBreak l) (h : parseMedia d lines = .ok m) :
    ∃ ls m', mediaLines m = .ok ls ∧ parseMedia { iceLite := d.iceLite } ls = .ok m' ∧ mediaLines m' = .ok ls := by
  obtain ⟨hp, hr, hlite⟩ := parseMedia_inv d lines m hd hl h
  obtain ⟨ls, h1, h2, h3, _⟩ := media_fixed_point m hp hr
  rw [hlite] at h2
  exact ⟨ls, normM m, h1, h2, h3⟩

/-! ### session level -/

/-- (2) of the standard route: **parser output is canonical**. -/
theorem parse_output_canonical (t : Str) (s : Session) (h : parse t = .ok s) : ParsedSession s :=
  parse_parsed t s h

/-- Printing is invariant under normalisation (any value, no hypothesis). -/
theorem print_norm_invariant (s : Session) : sessionToStr (normS s) = sessionToStr s :=
  sessionToStr_normS s

/-- The normal form of a canonical value is structurally valid in the sense of `session_roundtrip`. -/
theorem canonical_norm_wf (s : Session) (hp : ParsedSession s) : WFSession (normS s) :=
  wfSession_norm s hp

/-- No line printed for a canonical value contains a line-break character. -/
theorem printed_lines_nobreak (s : Session) (hp : ParsedSession s) (ml : List Str)
    (h : allLines mediaLines s.media = .ok ml) : ∀ l ∈ sessionHdr s ++ ml, NoBreak l := by
  intro l hl
  simp only [List.mem_append] at hl
  rcases hl with hl | hl
  · exact sessionHdr_nb s hp.hdr l hl
  · obtain ⟨m, hm, lm, h1, h2⟩ := allLines_mem mediaLines _ _ h l hl
    exact mediaLines_nb m (hp.media m hm).1 lm h1 l h2

/-- Serialisation never raises on a canonical value — in particular on anything the parser accepted. -/
theorem canonical_serialises (s : Session) (hp : ParsedSession s) : ∃ t1, sessionToStr s = .ok t1 := by
  obtain ⟨ls, h, _⟩ := Lemmas.C09.session_roundtrip (normS s) (wfSession_norm s hp)
  rw [sessionToStr_normS] at h
  exact ⟨_, h⟩

/-- (3) of the standard route: **printing a canonical value and parsing it back is the normalisation**, and the
normal form prints to the same text. -/
theorem canonical_fixed_point (s : Session) (t1 : Str) (hp : ParsedSession s) (h : sessionToStr s = .ok t1) :
    parse t1 = .ok (normS s) ∧ sessionToStr (normS s) = .ok t1 :=
  canon_fixed_point s t1 hp h

/-- **C09, clause 2, full strength**: `TextIdempotent` of `Props/C09.lean` holds — for ANY text `t`, if
`str(parse(t))` succeeds with text `t1`, then `str(parse(t1))` succeeds with `t1`. -/
theorem text_idempotent : C09.TextIdempotent :=
  fun t t1 h => Lemmas.C09.text_idempotent t t1 h

/-- The stronger form: for ANY text the parser accepts, serialisation succeeds (no exception), the serialised text
is accepted again, parses to the normal form of the first result, and is a fixed point of parse-then-serialise. -/
theorem accepted_text_roundtrip (t : Str) (s : Session) (h : parse t = .ok s) :
    ∃ t1, roundTrip t = .ok t1 ∧ parse t1 = .ok (normS s) ∧ roundTrip t1 = .ok t1 := by
  have hp := parse_parsed t s h
  obtain ⟨t1, h1⟩ := canonical_serialises s hp
  obtain ⟨h2, h3⟩ := canon_fixed_point s t1 hp h1
  exact ⟨t1, by simp only [roundTrip, h, ok_bind, h1], h2, by simp only [roundTrip, h2, ok_bind, h3]⟩

/-- After one round the VALUE is a fixed point too: the reparsed description is its own normal form. -/
theorem reparsed_value_fixed (t : Str) (s : Session) (h : parse t = .ok s) : normS (normS s) = normS s := by
  have hp := parse_parsed t s h
  obtain ⟨t1, h1⟩ := canonical_serialises s hp
  obtain ⟨h2, h3⟩ := canon_fixed_point s t1 hp h1
  obtain ⟨h4, _⟩ := canon_fixed_point (normS s) t1 (parse_parsed t1 (normS s) h2) h3
  rw [h2] at h4
  injection h4 with h4
  exact h4.symm

/-! ### non-vacuity: accepted texts that exercise every normalisation -/

/-- A text whose parse result is NOT structurally valid (`a=mid` without value, lone `a=rtcp-mux`, an ssrc line with
an unknown attribute, six audio channels, an empty rtcp-fb parameter, an empty fmtp, fingerprint without setup,
unknown lines) — accepted, and one round reaches the fixed point. -/
def exText : Str :=
  ("v=0\r\ns=x \r\nb=AS:1\r\nm=audio 9 RTP/AVP 96\r\na=mid\r\na=rtcp-mux\r\na=ssrc:1 foo:bar\r\n" ++
   "a=rtpmap:96 opus/48000/6\r\na=rtcp-fb:96 nack \r\na=fmtp:96 \r\na=fingerprint:sha-256 AA\r\na=foo:bar\r\n").toList

def exText1 : Str :=
  "v=0\r\no=None\r\ns=x\r\nt=0 0\r\nm=audio 9 RTP/AVP 96\r\na=rtpmap:96 opus/48000\r\na=rtcp-fb:96 nack\r\n".toList

set_option maxRecDepth 20000 in
example : roundTrip exText = .ok exText1 := by decide
set_option maxRecDepth 20000 in
example : roundTrip exText1 = .ok exText1 := text_idempotent exText exText1 (by decide)

/- A media kind containing "/" (accepted by the regex `[^ ]+`): the codec name becomes the second piece of the kind. -/
set_option maxRecDepth 20000 in
example : roundTrip "v=0\r\nm=a/b 9 X 0\r\na=rtpmap:96 opus/48000\r\n".toList =
    .ok "v=0\r\no=None\r\ns=-\r\nt=0 0\r\nm=a/b 9 X 0\r\na=rtpmap:96 b/48000\r\n".toList := by decide

example : DefaultsOk {} := defaultsOk_init

end Aiortc.Props.C09Text
