import Aiortc.Lemmas.JitterAddSpec
import Aiortc.Lemmas.JitterReady
import Aiortc.Lemmas.JitterInOrderStep
/-!
# C10 — the jitter buffer releases only whole, correctly ordered frames and stays bounded

All theorems are about `Aiortc.Model.Jitter` (the line-by-line model of `src/aiortc/jitterbuffer.py`,
tied to the real class by the differential run of `harness/props/C10.py`) and hold for **all**
capacities `2^k` (`k ≤ 16`), all prefetch values (any integer), audio and video mode, and **all** arrival
lists over 16-bit sequence numbers — permutation, duplication, loss, jumps and wrap-around are just lists.

`Inv` (Lemmas/Jitter.lean) is the ring invariant; `mk_inv` establishes it, `jb_total` preserves it.
-/
namespace Aiortc.Props.C10
open Aiortc Aiortc.Gen Aiortc.Model.Jitter Aiortc.Lemmas.Jitter

set_option linter.unusedVariables false

/-! ## Constants of the property text vs the regenerated code -/

/-- The literal 100 of the property text is the code's `MAX_MISORDER`. -/
theorem max_misorder_const : MAX_MISORDER = 100 := by decide

/-- The capacities the property quantifies over: powers of two up to 2^16. -/
def Pow2Cap (c : Nat) : Prop := ∃ k, k ≤ 16 ∧ c = 2 ^ k

/-- The receiver's own buffers (audio: 16/4, video: 128/0) are within the quantifier. -/
theorem receiver_params_const :
    RECEIVER_JITTER_PARAMS = [(16, 4, false), (128, 0, true)] := by decide

theorem receiver_params_pow2 : ∀ x ∈ RECEIVER_JITTER_PARAMS, Pow2Cap x.1 := by
  intro x hx
  rw [receiver_params_const] at hx
  simp only [List.mem_cons, List.mem_nil_iff, or_false] at hx
  rcases hx with rfl | rfl
  · exact ⟨4, by omega, rfl⟩
  · exact ⟨7, by omega, rfl⟩

theorem pow2_cases {c : Nat} (h : Pow2Cap c) :
    c = 1 ∨ c = 2 ∨ c = 4 ∨ c = 8 ∨ c = 16 ∨ c = 32 ∨ c = 64 ∨ c = 128 ∨ c = 256 ∨ c = 512 ∨ c = 1024 ∨
    c = 2048 ∨ c = 4096 ∨ c = 8192 ∨ c = 16384 ∨ c = 32768 ∨ c = 65536 := by
  obtain ⟨k, hk, rfl⟩ := h
  have : k = 0 ∨ k = 1 ∨ k = 2 ∨ k = 3 ∨ k = 4 ∨ k = 5 ∨ k = 6 ∨ k = 7 ∨ k = 8 ∨ k = 9 ∨ k = 10 ∨ k = 11 ∨
      k = 12 ∨ k = 13 ∨ k = 14 ∨ k = 15 ∨ k = 16 := by omega
  rcases this with h | h | h | h | h | h | h | h | h | h | h | h | h | h | h | h | h <;> subst h <;> simp

/-! ## Clause 1 — `add` never raises; the ring keeps its length; the buffer holds at most `capacity` -/

/-- The constructor accepts exactly the capacities with `c & (c - 1) == 0`. -/
theorem mk_ok_iff_pow2 (c : Nat) (pre : Int) (v : Bool) :
    (∃ jb, mk c pre v = .ok jb) ↔ c &&& (c - 1) = 0 := by
  unfold mk
  by_cases h : c &&& (c - 1) = 0
  · simp [h]
  · simp [h]

/-- A fresh buffer of an admissible capacity satisfies the invariant. -/
theorem mk_inv (c : Nat) (pre : Int) (v : Bool) (hc : Pow2Cap c) :
    ∃ jb, mk c pre v = .ok jb ∧ Inv jb ∧ jb.capacity = c ∧ jb.prefetch = pre ∧ jb.isVideo = v ∧
      jb.origin = none := by
  have hE : ∀ (s : Nat) (p : Packet), ¬ (List.replicate c (none : Option Packet))[s]? = some (some p) := by
    intro s p h
    rw [List.getElem?_replicate] at h
    split at h <;> simp at h
  have key : c &&& (c - 1) = 0 ∧ 0 < c ∧ ((c : Int) ∣ 65536) := by
    rcases pow2_cases hc with h | h | h | h | h | h | h | h | h | h | h | h | h | h | h | h | h <;> subst h <;>
      exact ⟨by decide, by decide, Int.dvd_of_emod_eq_zero (by decide)⟩
  refine ⟨{ capacity := c, prefetch := pre, isVideo := v, origin := none, packets := List.replicate c none },
    by unfold mk; rw [if_pos key.1], ⟨key.2.1, key.2.2, by simp, fun _ => hE, ?_, ?_⟩, rfl, rfl, rfl, rfl⟩
  · intro o h; cases h
  · intro o h; cases h

/-- **Clause 1 (one call).** Under the invariant `add` returns normally (neither `assert` fails, no index
is out of range, no division by zero), preserves the invariant and the static fields, the ring keeps
exactly `capacity` slots, hence never more than `capacity` packets are held. -/
theorem jb_total {jb : JB} (hI : Inv jb) (p : Packet) (hp : R16 p.seq) :
    ∃ out, add jb p = .ok out ∧ Inv out.jb ∧ Same jb out.jb ∧ out.jb.packets.length = jb.capacity ∧
      (out.jb.packets.filter Option.isSome).length ≤ jb.capacity := by
  obtain ⟨out, e, hA⟩ := add_spec hI p hp
  have key : Inv out.jb ∧ Same jb out.jb := by
    rcases hA with ⟨_, _, h, _⟩ | ⟨jb2, o2, jb3, hM, hP, hR⟩
    · rw [h]; exact ⟨hI, Same.rfl' jb⟩
    · rcases hR with ⟨_, _, h, _⟩ | ⟨f, st, _, _, hS, _⟩
      · rw [h]; exact ⟨hP.2.2.1, hM.same.trans hP.1⟩
      · exact ⟨hS.2.2.1, (hM.same.trans hP.1).trans hS.1⟩
  have hl : out.jb.packets.length = jb.capacity := by rw [key.1.len, key.2.1]
  refine ⟨out, e, key.1, key.2, hl, ?_⟩
  rw [← hl]; exact List.length_filter_le _ _

/-- **Clause 1 (whole history).** From any state satisfying the invariant, any list of arrivals with 16-bit
sequence numbers is processed without an exception, and the invariant holds at the end. -/
theorem run_total (ps : List Packet) : ∀ {jb : JB}, Inv jb → (∀ p ∈ ps, R16 p.seq) →
    ∃ jb' obs, run jb ps = .ok (jb', obs) ∧ Inv jb' ∧ Same jb jb' ∧ obs.length = ps.length := by
  induction ps with
  | nil => intro jb hI _; exact ⟨jb, [], rfl, hI, Same.rfl' jb, rfl⟩
  | cons p ps ih =>
    intro jb hI hps
    obtain ⟨out, e, hI', hS, _, _⟩ := jb_total hI p (hps p (List.mem_cons_self))
    obtain ⟨jb', obs, e', hI'', hS', hl⟩ := ih hI' (fun q hq => hps q (List.mem_cons_of_mem _ hq))
    refine ⟨jb', (out.pli, out.frame) :: obs, ?_, hI'', hS.trans hS', by simp [hl]⟩
    simp only [run, e, e']

/-- **Clause 1, from construction**: capacities 2^k, any prefetch, audio and video, any arrival list. -/
theorem buffer_never_raises (c : Nat) (pre : Int) (v : Bool) (hc : Pow2Cap c) (ps : List Packet)
    (hps : ∀ p ∈ ps, R16 p.seq) :
    ∃ jb0 jb' obs, mk c pre v = .ok jb0 ∧ run jb0 ps = .ok (jb', obs) ∧ Inv jb' ∧ jb'.capacity = c ∧
      jb'.packets.length = c := by
  obtain ⟨jb0, e0, hI0, hc0, _⟩ := mk_inv c pre v hc
  obtain ⟨jb', obs, e, hI, hS, _⟩ := run_total ps hI0 hps
  exact ⟨jb0, jb', obs, e0, e, hI, by rw [← hS.1, hc0], by rw [hI.len, ← hS.1, hc0]⟩

/-! ## Clause 2 — the slot invariant -/

/-- **Clause 2.** Slot `(origin + i) % capacity` holds, if anything, the packet whose sequence number is
`(origin + i) % 2^16` (in every state reachable by `mk`/`add`, by `mk_inv` and `jb_total`). -/
theorem slot_inv {jb : JB} (hI : Inv jb) {o : Int} (ho : jb.origin = some o) (i : Nat) (hi : i < jb.capacity)
    (p : Packet) (h : jb.packets[((o + (i : Int)) % (jb.capacity : Int)).toNat]? = some (some p)) :
    p.seq = (o + (i : Int)) % 65536 := by
  have hd := dist_of_held hI ho (Int.natCast_nonneg i) (by omega) (p := p) h
  have := seq_eq_of_dist (hI.orig o ho) (hI.slots o ho _ _ h).1
  rw [hd] at this; exact this

/-- Distinct window positions are distinct slots, so the window `0 … capacity-1` enumerates the ring. -/
theorem slot_inv_injective {jb : JB} (hI : Inv jb) (o : Int) (i j : Nat) (hi : i < jb.capacity)
    (hj : j < jb.capacity)
    (h : ((o + (i : Int)) % (jb.capacity : Int)).toNat = ((o + (j : Int)) % (jb.capacity : Int)).toNat) :
    i = j := by
  have := (pos_eq_iff jb hI.cap_pos (o + i) (o + j)).1 h
  have := slot_inj (Int.natCast_nonneg i) (by omega) (Int.natCast_nonneg j) (by omega) this
  omega

/-! ## Clause 3 — frame integrity -/

/-- What it means for `used` (ghost output of the model) to be the run of packets behind frame `f`
released by `add jb p`, which left the buffer in state `jb'`. -/
def FrameIntegrity (jb : JB) (p : Packet) (jb' : JB) (f : Frame) (used : List Packet) : Prop :=
  ∃ o2 : Int, R16 o2 ∧
    used ≠ [] ∧ used.length < jb.capacity ∧
    -- in-order concatenation of the payloads
    f.data = joinData used ∧
    -- one common timestamp; every packet was received (now or earlier, and was still held)
    (∀ q ∈ used, q.ts = f.ts ∧ (q = p ∨ ∃ s, Held jb s q)) ∧
    -- consecutive sequence numbers o2, o2+1, …
    (∀ (k : Nat) q, used[k]? = some q → q.seq = (o2 + (k : Int)) % 65536) ∧
    -- the origin moves just past the run, where a held packet of a different timestamp sits
    jb'.origin = some ((o2 + (used.length : Int)) % 65536) ∧
    (∃ s q, Held jb' s q ∧ q.seq = (o2 + (used.length : Int)) % 65536 ∧ q.ts ≠ f.ts) ∧
    -- the packets of the frame are no longer held afterwards
    (∀ q ∈ used, ∀ s, ¬ Held jb' s q)

theorem frame_integrity_of_post {jb2 jb3 jbOut : JB} {o2 : Int} {p : Packet} {f : Frame} {used : List Packet}
    (hI2 : Inv jb2) (ho2 : jb2.origin = some o2) (hP : Placed jb2 p jb3) (hF : FrameAt jb3 o2 f used)
    (hS : Shift jb3 jbOut o2 used.length) :
    (∀ q ∈ used, q.ts = f.ts ∧ (q = p ∨ ∃ s, Held jb2 s q) ∧ ∀ s, ¬ Held jbOut s q) ∧
    (∀ (k : Nat) q, used[k]? = some q → q.seq = (o2 + (k : Int)) % 65536 ∧ dist o2 q = k) ∧
    (∃ s q, Held jbOut s q ∧ q.seq = (o2 + (used.length : Int)) % 65536 ∧ q.ts ≠ f.ts) := by
  obtain ⟨hne, hlt, hdata, hrun, q, hq, hqts⟩ := hF
  obtain ⟨hS3, ho3, hI3, hH3⟩ := hP
  have ho3' : jb3.origin = some o2 := by rw [ho3, ho2]
  have hcap : jb3.capacity = jb2.capacity := hS3.1.symm
  have hpos : ∀ x, pos jb3 x = pos jb2 x := fun x => pos_same hS3 x
  have hseq : ∀ (k : Nat) q, used[k]? = some q → q.seq = (o2 + (k : Int)) % 65536 ∧ dist o2 q = k := by
    intro k q' hk
    have hk' : k < used.length := by
      rcases Nat.lt_or_ge k used.length with h | h
      · exact h
      · rw [List.getElem?_eq_none h] at hk; cases hk
    have hh := (hrun k q' hk).1
    have hd := dist_of_held hI3 ho3' (Int.natCast_nonneg k) (by omega) hh
    have := seq_eq_of_dist (hI3.orig o2 ho3') (hI3.slots o2 ho3' _ _ hh).1
    rw [hd] at this; exact ⟨this, hd⟩
  refine ⟨?_, hseq, ?_⟩
  · intro q' hq'
    obtain ⟨k, hk⟩ := List.getElem?_of_mem hq'
    have hh := (hrun k q' hk).1
    refine ⟨(hrun k q' hk).2, ?_, ?_⟩
    · have := (hH3 _ q').1 hh
      split at this
      · exact Or.inl this
      · exact Or.inr ⟨_, this⟩
    · intro s hs
      obtain ⟨h1, h2⟩ := (hS.2.2.2.2 s q').1 hs
      have hk' : k < used.length := by
        rcases Nat.lt_or_ge k used.length with h | h
        · exact h
        · rw [List.getElem?_eq_none h] at hk; cases hk
      have := (hseq k q' hk).2
      omega
  · have hd := dist_of_held hI3 ho3' (Int.natCast_nonneg used.length) (by omega) hq
    have hs := seq_eq_of_dist (hI3.orig o2 ho3') (hI3.slots o2 ho3' _ _ hq).1
    rw [hd] at hs
    exact ⟨_, q, (hS.2.2.2.2 _ q).2 ⟨hq, by omega⟩, hs, hqts⟩

/-- **Clause 3.** Every frame returned by `add` is the in-order concatenation of the payloads of a run of
received, still-held packets with consecutive sequence numbers and one common timestamp, delimited by a
held packet of a different timestamp. -/
theorem frame_integrity {jb : JB} (hI : Inv jb) (p : Packet) (hp : R16 p.seq) {out : AddOut}
    (e : add jb p = .ok out) {f : Frame} (hf : out.frame = some f) :
    FrameIntegrity jb p out.jb f out.used := by
  obtain ⟨out', e', hA⟩ := add_spec hI p hp
  rw [e] at e'; injection e' with e'; subst e'
  rcases hA with ⟨_, _, _, _, h, _⟩ | ⟨jb2, o2, jb3, hM, hP, hR⟩
  · rw [hf] at h; cases h
  · rcases hR with ⟨h, _⟩ | ⟨f', st, hf', hF, hS, _⟩
    · rw [hf] at h; cases h
    · rw [hf] at hf'; injection hf' with hf'; subst hf'
      obtain ⟨h1, h2, h3⟩ := frame_integrity_of_post hM.inv hM.orig hP hF hS
      have hc3 : jb3.capacity = jb.capacity := by rw [← hP.1.1, ← hM.same.1]
      refine ⟨o2, hM.inv.orig o2 hM.orig, hF.1, by rw [← hc3]; exact hF.2.1, hF.2.2.1, ?_, fun k q hk => (h2 k q hk).1,
        hS.2.1, h3, fun q hq => (h1 q hq).2.2⟩
      intro q hq
      refine ⟨(h1 q hq).1, ?_⟩
      rcases (h1 q hq).2.1 with h | ⟨s, h⟩
      · exact Or.inl h
      · exact Or.inr ⟨s, hM.sub s q h⟩

/-! ## Clause 4 — no packet is used twice, frames come out in increasing order -/

/-- The very first `add` (origin still `None`) cannot release a frame. -/
theorem first_add_no_frame {jb : JB} (hI : Inv jb) (p : Packet) (hp : R16 p.seq) {out : AddOut}
    (e : add jb p = .ok out) (ho : jb.origin = none) : out.frame = none ∧ out.used = [] := by
  obtain ⟨out', e', hA⟩ := add_spec hI p hp
  rw [e] at e'; injection e' with e'; subst e'
  rcases hA with ⟨_, _, _, _, h1, h2⟩ | ⟨jb2, o2, jb3, hM, hP, hR⟩
  · exact ⟨h1, h2⟩
  · rcases hR with ⟨h1, h2, _⟩ | ⟨f', st, hf', hF, hS, _⟩
    · exact ⟨h1, h2⟩
    · exfalso
      obtain ⟨hne, hlt, hdata, hrun, q, hq, hqts⟩ := hF
      obtain ⟨hS3, ho3, hI3, hH3⟩ := hP
      have ho3' : jb3.origin = some o2 := by rw [ho3, hM.orig]
      have onlyp : ∀ s u, Held jb3 s u → u = p := by
        intro s u hu
        have := (hH3 s u).1 hu
        split at this
        · exact this
        · exact absurd (hM.sub s u this) (hI.empty ho s u)
      cases hu : out.used with
      | nil => exact hne hu
      | cons u rest =>
        have h0 : out.used[0]? = some u := by rw [hu]; rfl
        have hh := (hrun 0 u h0).1
        have d0 := dist_of_held hI3 ho3' (Int.le_refl 0) (by omega) hh
        have dq := dist_of_held hI3 ho3' (Int.natCast_nonneg _) (by omega) hq
        rw [onlyp _ u hh] at d0
        rw [onlyp _ q hq, hu] at dq
        simp at dq d0; omega

/-- How far the origin moved in one call, as a 16-bit forward distance (0 while there was no origin). -/
def originAdvance (jb jb' : JB) : Int :=
  match jb.origin, jb'.origin with
  | some o, some o' => uint16_add o' (-o)
  | _, _ => 0

theorem originAdvance_nonneg (jb jb' : JB) : 0 ≤ originAdvance jb jb' := by
  unfold originAdvance
  split
  · unfold uint16_add; omega
  · exact Int.le_refl 0

/-- One call: unless the packet is ≥ 100 positions late (the reset branch), the origin moves forward by
at least the length of the released frame — the frame lies entirely at or after the old origin. -/
theorem step_advance {jb : JB} (hI : Inv jb) (p : Packet) (hp : R16 p.seq) {out : AddOut}
    (e : add jb p = .ok out) (hnl : ¬ Late jb p 100) :
    (out.used.length : Int) ≤ originAdvance jb out.jb := by
  cases ho : jb.origin with
  | none =>
    rw [(first_add_no_frame hI p hp e ho).2]
    exact originAdvance_nonneg _ _
  | some o =>
    have hO := hI.orig o ho
    obtain ⟨out', e', hA⟩ := add_spec hI p hp
    rw [e] at e'; injection e' with e'; subst e'
    rcases hA with ⟨_, _, h0, _, _, h2⟩ | ⟨jb2, o2, jb3, hM, hP, hR⟩
    · rw [h2, h0]; exact originAdvance_nonneg _ _
    · rcases hR with ⟨_, h2, _⟩ | ⟨f', st, hf', hF, hS, _⟩
      · rw [h2]; exact originAdvance_nonneg _ _
      · obtain ⟨a, ha0, ho2, had, h32, hac⟩ := hM.adv (by rw [max_misorder_const]; exact hnl) o ho
        have hcap : (jb.capacity : Int) ≤ 65536 := Int.le_of_dvd (by decide) hI.cap_dvd
        have hlen : out.used.length < jb.capacity := by
          have := hF.2.1; rw [← hP.1.1, ← hM.same.1] at this; exact this
        unfold originAdvance
        rw [ho, hS.2.1]
        simp only []
        unfold uint16_add R16 at *
        omega

/-- Ghost: the unwrapped ranges `(start, length)` of the frames released along an arrival list, where the
unwrapped origin `ext` is advanced by `originAdvance` in every call. -/
def ghostRun : JB → Int → List Packet → List (Int × Nat)
  | _, _, [] => []
  | jb, ext, p :: ps =>
    match add jb p with
    | .ok out =>
      (match out.frame with
        | some _ => [(ext + originAdvance jb out.jb - (out.used.length : Int), out.used.length)]
        | none => []) ++ ghostRun out.jb (ext + originAdvance jb out.jb) ps
    | _ => []

/-- No arrival of the list comes 100 or more positions behind the origin of the moment. -/
def NoLateRun : JB → List Packet → Prop
  | _, [] => True
  | jb, p :: ps =>
    ¬ Late jb p 100 ∧
    match add jb p with
    | .ok out => NoLateRun out.jb ps
    | _ => True

/-- **Clause 4.** As long as no packet arrives 100 or more positions late, the unwrapped ranges of the
released frames are non-empty, start at or after the initial origin, and every frame ends before every
later frame starts: no position (packet) is in two frames and frames come out in increasing order. -/
theorem no_reuse_in_order (ps : List Packet) : ∀ {jb : JB} (ext : Int), Inv jb → (∀ p ∈ ps, R16 p.seq) →
    NoLateRun jb ps →
    (ghostRun jb ext ps).Pairwise (fun a b => a.1 + (a.2 : Int) ≤ b.1) ∧
    ∀ r ∈ ghostRun jb ext ps, ext ≤ r.1 ∧ 1 ≤ r.2 := by
  induction ps with
  | nil => intro jb ext _ _ _; simp [ghostRun]
  | cons p ps ih =>
    intro jb ext hI hps hnl
    have hp := hps p List.mem_cons_self
    obtain ⟨out, e, hI', _⟩ := jb_total hI p hp
    have hnl' : NoLateRun out.jb ps := by
      have := hnl.2; simp only [e] at this; exact this
    have hadv := step_advance hI p hp e hnl.1
    have hnn := originAdvance_nonneg jb out.jb
    obtain ⟨ih1, ih2⟩ := ih (ext + originAdvance jb out.jb) hI' (fun q hq => hps q (List.mem_cons_of_mem _ hq)) hnl'
    simp only [ghostRun, e]
    cases hf : out.frame with
    | none =>
      simp only [List.nil_append]
      exact ⟨ih1, fun r hr => ⟨by have := (ih2 r hr).1; omega, (ih2 r hr).2⟩⟩
    | some f =>
      have hne : 1 ≤ out.used.length := by
        obtain ⟨_, _, hne, _⟩ := frame_integrity hI p hp e hf
        cases hu : out.used with
        | nil => exact absurd hu hne
        | cons _ _ => simp
      simp only [List.singleton_append]
      refine ⟨List.pairwise_cons.2 ⟨?_, ih1⟩, ?_⟩
      · intro b hb; have := (ih2 b hb).1; simp only []; omega
      · intro r hr
        rcases List.mem_cons.1 hr with h | h
        · rw [h]; exact ⟨by simp only []; omega, hne⟩
        · exact ⟨by have := (ih2 r h).1; omega, (ih2 r h).2⟩

/-! ## Clause 5 — a video buffer asks for a key frame whenever it throws held packets away -/

theorem same_seq_of_same_slot {jb : JB} (hI : Inv jb) {o : Int} (ho : jb.origin = some o) {s : Nat}
    {q p : Packet} (hq : Held jb s q) (hp : R16 p.seq) (hnear : dist o p < jb.capacity)
    (hs : pos jb p.seq = s) : p.seq = q.seq := by
  obtain ⟨hq1, hq2, hq3⟩ := hI.slots o ho s q hq
  have hO := hI.orig o ho
  rw [pos_of_dist jb hI.cap_dvd hO hp] at hs
  rw [pos_of_dist jb hI.cap_dvd hO hq1, ← hs, pos_eq_iff jb hI.cap_pos] at hq3
  have := slot_inj (dist_range o q).1 hq2 (dist_range o p).1 hnear hq3
  rw [seq_eq_of_dist hO hp, seq_eq_of_dist hO hq1, this]

/-- **Clause 5.** In video mode, if a call makes a held sequence number disappear from the buffer without
it being part of the returned frame, the call returns `pli_flag = True`. -/
theorem pli_on_discard {jb : JB} (hI : Inv jb) (p : Packet) (hp : R16 p.seq) (hv : jb.isVideo = true)
    {out : AddOut} (e : add jb p = .ok out) {s : Nat} {q : Packet} (hq : Held jb s q)
    (hgone : ∀ s' q', Held out.jb s' q' → q'.seq ≠ q.seq)
    (hnot : ∀ u ∈ out.used, u.seq ≠ q.seq) : out.pli = true := by
  cases hpl : out.pli with
  | true => rfl
  | false =>
    exfalso
    obtain ⟨out', e', hA⟩ := add_spec hI p hp
    rw [e] at e'; injection e' with e'; subst e'
    rcases hA with ⟨_, _, h0, _⟩ | ⟨jb2, o2, jb3, hM, hP, hR⟩
    · rw [h0] at hgone; exact hgone s q hq rfl
    · have hq2 := hM.keep hv hpl s q hq
      obtain ⟨hS3, ho3, hI3, hH3⟩ := hP
      have ho3' : jb3.origin = some o2 := by rw [ho3, hM.orig]
      -- slot `s` of jb3 holds a packet with q's sequence number (q itself or the duplicate p)
      have h3 : ∃ q3, Held jb3 s q3 ∧ q3.seq = q.seq := by
        by_cases hs : s = pos jb2 p.seq
        · refine ⟨p, (hH3 s p).2 (by simp [hs]), ?_⟩
          exact same_seq_of_same_slot hM.inv hM.orig hq2 hp (by rw [← hM.same.1]; exact hM.near) hs.symm
        · exact ⟨q, (hH3 s q).2 (by simp [hs]; exact hq2), rfl⟩
      obtain ⟨q3, hq3, hseq3⟩ := h3
      rcases hR with ⟨_, _, h, _⟩ | ⟨f', st, hf', hF, hS, _⟩
      · rw [h] at hgone; exact hgone s q3 hq3 hseq3
      · by_cases hd : (out.used.length : Int) ≤ dist o2 q3
        · exact hgone s q3 ((hS.2.2.2.2 s q3).2 ⟨hq3, hd⟩) hseq3
        · -- q3 is one of the packets of the frame
          have hdr := dist_range o2 q3
          have hk : (dist o2 q3).toNat < out.used.length := by omega
          obtain ⟨u, hu⟩ : ∃ u, out.used[(dist o2 q3).toNat]? = some u :=
            ⟨_, List.getElem?_eq_getElem hk⟩
          have hh := (hF.2.2.2.1 _ u hu).1
          have hcap : out.used.length < jb3.capacity := hF.2.1
          have du := dist_of_held hI3 ho3' (Int.natCast_nonneg _) (by omega) hh
          have : u = q3 := held_unique hI3 ho3' hh hq3 (by rw [du]; omega)
          subst this
          exact hnot u (List.mem_of_getElem? hu) hseq3

/-! ## Clause 6 — completeness

Proved: `release_iff_ready` / `release_if_ready` (a frame is returned exactly when a complete frame plus the
prefetch window is held contiguously at the origin) and `complete_in_order` (Props/C10b.lean).
Refuted: the literal clause for reordered arrival (`complete_full_false`): `add` returns at most one frame per
call, so the frames completed at once by a late packet stay behind. -/

/-- The packets held contiguously from the origin `o`: window positions 0, 1, … up to the first empty slot. -/
def windowRun (jb : JB) (o : Int) : List Packet := somePrefix (winList jb o 0 jb.capacity)

/-- A complete frame and the prefetch window are held at the origin: the contiguous run contains at least
`max(prefetch, 1)` timestamp changes. -/
def Ready (jb : JB) : Prop :=
  ∃ o, jb.origin = some o ∧ max jb.prefetch 1 ≤ (changes (windowRun jb o) : Int)

/-- `_remove_frame` returns a frame exactly when the buffer is `Ready`. -/
theorem release_iff_ready {jb : JB} (hI : Inv jb) {o : Int} (ho : jb.origin = some o) (x : Int) :
    ∃ r, removeFrame jb x = .ok r ∧ (r.frame ≠ none ↔ Ready jb) := by
  obtain ⟨r, e, hR⟩ := removeFrame_spec hI ho x
  refine ⟨r, e, ?_⟩
  have key := scan_init_none_iff jb.prefetch (winList jb o 0 jb.capacity)
  have hready : Ready jb ↔ max jb.prefetch 1 ≤ (changes (windowRun jb o) : Int) := by
    constructor
    · rintro ⟨o', ho', h⟩; rw [ho] at ho'; injection ho' with ho'; subst ho'; exact h
    · intro h; exact ⟨o, ho, h⟩
  rw [hready]
  unfold windowRun
  rcases hR with ⟨hf, _, _, hs⟩ | ⟨f, st, hf, _, _, hs, _⟩
  · rw [hf]; have := key.1 hs; constructor
    · intro h; exact absurd rfl h
    · intro h; omega
  · rw [hf]; constructor
    · intro _
      rcases Int.lt_or_le (changes (somePrefix (winList jb o 0 jb.capacity)) : Int) (max jb.prefetch 1) with h | h
      · have := key.2 h; rw [hs] at this; cases this
      · exact h
    · intro _ h; cases h

/-- **Clause 6, per call.** A call of `add` that gets as far as `_remove_frame` (i.e. the packet is not a
late one that is silently dropped) and returns no frame leaves a buffer that is not `Ready`: whenever a
complete frame plus the prefetch window is held at the origin, a frame is released. -/
theorem release_if_ready {jb : JB} (hI : Inv jb) (p : Packet) (hp : R16 p.seq) {out : AddOut}
    (e : add jb p = .ok out) (hne : ¬ (Late jb p 0 ∧ ¬ Late jb p 100)) (hf : out.frame = none) :
    ¬ Ready out.jb := by
  obtain ⟨out', e', hA⟩ := add_spec hI p hp
  rw [e] at e'; injection e' with e'; subst e'
  rcases hA with ⟨h1, h2, _⟩ | ⟨jb2, o2, jb3, hM, hP, hR⟩
  · exact absurd ⟨h2, by rw [max_misorder_const] at h1; exact h1⟩ hne
  · rcases hR with ⟨_, _, hj, hs⟩ | ⟨f, st, hf', _⟩
    · rintro ⟨o', ho', h⟩
      rw [hj] at ho' h
      have ho3 : jb3.origin = some o2 := by rw [hP.2.1, hM.orig]
      rw [ho3] at ho'; injection ho' with ho'; subst ho'
      have := (scan_init_none_iff jb3.prefetch (winList jb3 o2 0 jb3.capacity)).1 hs
      unfold windowRun at h; omega
    · rw [hf] at hf'; cases hf'

/-- Observations of a whole run from a fresh buffer (`none` if anything raised). -/
def obsOf (c : Nat) (pre : Int) (v : Bool) (ps : List Packet) : Option (List Obs) :=
  match mk c pre v with
  | .ok jb => match run jb ps with
    | .ok (_, obs) => some obs
    | _ => none
  | _ => none

/-- The frames returned along a run, in order. -/
def releasedFrames (obs : List Obs) : List Frame := obs.filterMap (·.2)

/-- `stream` is a sender's packet sequence: consecutive sequence numbers from `s0`. Its frames are the
maximal runs of equal timestamps, `changes stream + 1` of them. -/
def InOrderStream (s0 : Int) (stream : List Packet) : Prop :=
  ∀ i, i < stream.length → (stream[i]?.map (·.seq)) = some ((s0 + (i : Int)) % 65536)

/-- The arrival list that delivers stream packet `idx[j]` at step `j`. -/
def arrivalsOf (stream : List Packet) (idx : List Nat) : List Packet := idx.filterMap (fun i => stream[i]?)

/-- Clause 6 read literally (with the most lenient reading of "trailing prefetch window": `prefetch + 1`
frames): complete arrival, every packet displaced by less than the capacity. -/
def Clause6Literal : Prop :=
  ∀ (c pre : Nat) (v : Bool) (s0 : Int) (stream : List Packet) (idx : List Nat),
    Pow2Cap c → R16 s0 → InOrderStream s0 stream →
    (∀ i, i < stream.length → i ∈ idx) →
    (∀ j, j < idx.length → idx[j]?.getD 0 < stream.length ∧
      ((idx[j]?.getD 0 : Nat) : Int) - j < c ∧ (j : Int) - (idx[j]?.getD 0 : Nat) < c) →
    ∀ obs, obsOf c pre v (arrivalsOf stream idx) = some obs →
      (changes stream : Int) + 1 - (pre + 1) ≤ (releasedFrames obs).length

/-- **Clause 6 at full strength is false for the code as it is** (known finding
`C10-backlog-one-frame-per-add`): capacity 16, prefetch 0, six one-packet frames arriving as 0,2,3,4,5,1 —
every packet displaced by at most 4 — release only frame 0; frames 1–4 stay in the buffer. -/
theorem complete_full_false : ¬ Clause6Literal := by
  intro h
  have := h 16 0 false 0
    [⟨0, 0, [0]⟩, ⟨1, 10, [1]⟩, ⟨2, 20, [2]⟩, ⟨3, 30, [3]⟩, ⟨4, 40, [4]⟩, ⟨5, 50, [5]⟩] [0, 2, 3, 4, 5, 1]
    ⟨4, by omega, rfl⟩ (by unfold R16; omega) (by unfold InOrderStream; decide) (by decide) (by decide)
    [(false, none), (false, none), (false, none), (false, none), (false, none), (false, some ⟨[0], 0⟩)]
    (by decide)
  revert this
  decide

theorem seqFrom_of_inOrderStream {s0 : Int} {ps : List Packet} (h : InOrderStream s0 ps) : SeqFrom s0 ps := by
  intro i q hq
  have hi : i < ps.length := by
    rcases Nat.lt_or_ge i ps.length with h' | h'
    · exact h'
    · rw [List.getElem?_eq_none h'] at hq; cases hq
  have := h i hi
  rw [hq] at this
  simpa using this

/-- **Clause 6 for in-order arrival (the part of the literal clause that is true of the code).**
A sender stream `ps` (consecutive 16-bit sequence numbers from `s0`, frames = maximal runs of equal
timestamps) arrives in order at a fresh buffer of capacity `2^k ≤ 2^15`, any prefetch, audio or video. If a
frame together with its prefetch window always fits (`Fits`: every stretch of the stream with fewer than
`max(prefetch,1)` frame boundaries is shorter than the capacity), then no call raises, no call sets
`pli_flag`, and the frames that come out are exactly `expected prefetch ps`: the stream's frames in order,
each exactly once (payloads joined in order, the frame's timestamp), all of them except the trailing
`max(prefetch, 1)` (`expected_count`). -/
theorem complete_in_order (c : Nat) (pre : Int) (v : Bool) (hc : Pow2Cap c) (hc32 : c ≤ 32768)
    (s0 : Int) (hs0 : R16 s0) (ps : List Packet) (hseq : InOrderStream s0 ps) (hfit : Fits ps pre c) :
    ∃ obs, obsOf c pre v ps = some obs ∧ releasedFrames obs = expected pre ps ∧ ∀ o ∈ obs, o.1 = false := by
  obtain ⟨jb0, e0, hI0, hc0, hp0, _, ho0⟩ := mk_inv c pre v hc
  have hS : St ps s0 pre jb0 0 0 := by
    refine ⟨hI0, hp0, Nat.le_refl 0, Nat.zero_le _, fun _ => ho0, fun h => by omega, by have := hI0.cap_pos; omega, ?_⟩
    simp [seg, changes]; omega
  obtain ⟨jb', obs, e, hobs, hall⟩ :=
    inorder_run (seqFrom_of_inOrderStream hseq) hs0 c hc32 hfit ps.length 0 0 jb0 (by omega) hc0 hS
  rw [List.drop_zero] at e hobs
  refine ⟨obs, by simp only [obsOf, e0, e], hobs, hall⟩

/-- `expected` lists all `changes ps + 1` frames of the stream except the trailing `max(prefetch, 1)`. -/
theorem expected_count (pre : Int) (ps : List Packet) :
    ((expected pre ps).length : Int) = max 0 ((changes ps : Int) + 1 - max pre 1) :=
  expected_length pre ps.length ps (Nat.le_refl _)

/-! ## Non-vacuity: the hypotheses are satisfiable and the conclusions are exercised -/

/-- `complete_in_order` applies to the receiver's audio buffer (16, prefetch 4) and a stream of one-packet
frames crossing the 16-bit wrap: a stretch with fewer than 4 boundaries has at most 4 packets. -/
example : Fits [⟨65534, 0, [0]⟩, ⟨65535, 960, [1]⟩, ⟨0, 1920, [2]⟩, ⟨1, 2880, [3]⟩, ⟨2, 3840, [4]⟩,
    ⟨3, 4800, [5]⟩] 4 16 := by unfold Fits; decide
example : InOrderStream 65534 [⟨65534, 0, [0]⟩, ⟨65535, 960, [1]⟩, ⟨0, 1920, [2]⟩, ⟨1, 2880, [3]⟩,
    ⟨2, 3840, [4]⟩, ⟨3, 4800, [5]⟩] := by unfold InOrderStream; decide
/-- … and releases the first two of the six frames (prefetch 4). -/
example : (obsOf 16 4 false [⟨65534, 0, [0]⟩, ⟨65535, 960, [1]⟩, ⟨0, 1920, [2]⟩, ⟨1, 2880, [3]⟩,
    ⟨2, 3840, [4]⟩, ⟨3, 4800, [5]⟩]).map releasedFrames = some [⟨[0], 0⟩, ⟨[1], 960⟩] := by decide

example : Pow2Cap 4 := ⟨2, by omega, rfl⟩
example : Pow2Cap 128 := ⟨7, by omega, rfl⟩
example : R16 65535 := by unfold R16; omega

/-- A frame of two packets across the 16-bit wrap is released when the next frame's first packet comes. -/
example : obsOf 4 0 false [⟨65535, 10, [1]⟩, ⟨0, 10, [2]⟩, ⟨1, 20, [3]⟩] =
    some [(false, none), (false, none), (false, some ⟨[1, 2], 10⟩)] := by decide

/-- Video: a jump of `capacity` forces a discard and `pli_flag`. -/
example : obsOf 4 0 true [⟨0, 10, [1]⟩, ⟨1, 10, [2]⟩, ⟨5, 20, [3]⟩] =
    some [(false, none), (false, none), (true, none)] := by decide

/-- A packet exactly 100 behind the origin takes the reset branch (pli), 99 behind is dropped silently. -/
example : obsOf 8 0 true [⟨200, 1, []⟩, ⟨100, 2, []⟩] = some [(false, none), (true, none)] := by decide
example : obsOf 8 0 true [⟨200, 1, []⟩, ⟨101, 2, []⟩] = some [(false, none), (false, none)] := by decide

/-- Executable form of `NoLateRun`, to exhibit instances. -/
def lateB (jb : JB) (p : Packet) (n : Int) : Bool :=
  match jb.origin with
  | none => false
  | some o => decide (uint16_add o (-p.seq) < uint16_add p.seq (-o)) && decide (n ≤ uint16_add o (-p.seq))

theorem late_iff (jb : JB) (p : Packet) (n : Int) : Late jb p n ↔ lateB jb p n = true := by
  unfold Late lateB
  cases h : jb.origin with
  | none => simp
  | some o => simp

def noLateRunB : JB → List Packet → Bool
  | _, [] => true
  | jb, p :: ps =>
    !lateB jb p 100 &&
    match add jb p with
    | .ok out => noLateRunB out.jb ps
    | _ => true

theorem noLateRun_iff (ps : List Packet) : ∀ jb, NoLateRun jb ps ↔ noLateRunB jb ps = true := by
  induction ps with
  | nil => intro jb; simp [NoLateRun, noLateRunB]
  | cons p ps ih =>
    intro jb
    simp only [NoLateRun, noLateRunB, late_iff, Bool.and_eq_true, Bool.not_eq_true']
    cases h : add jb p with
    | ok out => simp only []; rw [ih]; simp
    | valueError => simp
    | crash k => simp
    | hang => simp

/-- A reordered arrival with a duplicate satisfies the hypothesis of clause 4 … -/
example : NoLateRun ⟨4, 0, false, none, [none, none, none, none]⟩
    [⟨65535, 10, [1]⟩, ⟨1, 20, [3]⟩, ⟨0, 10, [2]⟩, ⟨0, 10, [2]⟩, ⟨2, 30, [4]⟩] :=
  (noLateRun_iff _ _).2 (by decide)

/-- … and releases two frames whose unwrapped ranges are [65535, 65537) and [65537, 65538). -/
example : ghostRun ⟨4, 0, false, none, [none, none, none, none]⟩ 65535
    [⟨65535, 10, [1]⟩, ⟨1, 20, [3]⟩, ⟨0, 10, [2]⟩, ⟨0, 10, [2]⟩, ⟨2, 30, [4]⟩] =
    [(65535, 2), (65537, 1)] := by decide

end Aiortc.Props.C10
