import Aiortc.Model.Video.Sender
import Aiortc.Model.Video.Receiver
import Aiortc.Lemmas.Video.Sender
import Aiortc.Lemmas.Video.NackSpec
import Aiortc.Lemmas.Video.StreamStep
import Aiortc.Lemmas.Video.Frames
import Aiortc.Lemmas.Video.Recv
import Aiortc.Props.C07
import Aiortc.Props.C10
/-!
# C11 — video frames reach the decoder unspliced; lost packets are recovered by NACK/RTX

Models: `Model/Video/Sender.lean` (packetisation loop of `_run_rtp`, `__rtp_history`, `_retransmit`, NACK branch
of `_handle_rtcp_packet`), `Model/Video/Nack.lean` (`NackGenerator`), `Model/Video/Receiver.lean`
(`_handle_rtp_packet` from the codec lookup to the decoder queue, `TimestampMapper`), reusing C07's
`wrapRtx/unwrapRtx`, C16's depayload models and C10's jitter buffer.  All theorems hold for ALL inputs of the
stated shape (sequence numbers and timestamps anywhere in their range, wrap-around included).
-/
namespace Aiortc.Props.C11
open Aiortc Aiortc.Gen Aiortc.Rtp Aiortc.Model.Video Aiortc.Lemmas.Video Aiortc.Lemmas.Jitter
open Aiortc.Model.Jitter (JB Packet Frame AddOut joinData)

set_option linter.unusedVariables false

/-! ## 0. Constants of the property text vs the regenerated code -/

/-- The literal 128 of the property text is `RTP_HISTORY_SIZE`. -/
theorem history_size_const : RTP_HISTORY_SIZE = 128 := by decide

/-- The video receiver's jitter buffer is `JitterBuffer(capacity=128, is_video=True)` (prefetch 0). -/
theorem receiver_buffer_const : (128, 0, true) ∈ RECEIVER_JITTER_PARAMS := by decide

/-- The literal 100 ("100 or more positions late") is `MAX_MISORDER`. -/
theorem max_misorder_const : MAX_MISORDER = 100 := by decide

/-! ## 1. Sender: packetisation loop and retransmission history -/

/-- **Packetisation (sequence numbers).** One iteration of `_run_rtp` with payloads `pls` emits exactly one
packet per payload; packet `k` carries sequence number `seq + k (mod 2^16)`, the frame's timestamp
`timestamp_origin + enc_ts (mod 2^32)` — one timestamp per frame —, payload `k`, the codec's payload type, the
sender's SSRC, and the marker bit exactly on the last payload; the running sequence number ends `len` further. -/
theorem packetise_fields (cfg : SenderCfg) {s : Sender} {q0 : Int} {sent : List RtpPacket} (hI : SInv s q0 sent)
    (encTs : Int) (pls : List Bytes) :
    let r := sendFrame cfg s encTs pls
    r.2.length = pls.length ∧
    (∀ k pl, pls[k]? = some pl → ∃ p, r.2[k]? = some p ∧
      (p.sequenceNumber : Int) = (q0 + ((sent.length + k : Nat) : Int)) % 65536 ∧
      (p.timestamp : Int) = (cfg.tsOrigin + encTs) % 4294967296 ∧
      p.payload = pl ∧ p.payloadType = cfg.pt ∧ p.ssrc = cfg.ssrc ∧ p.paddingSize = 0 ∧
      p.marker = (if k = pls.length - 1 then 1 else 0)) ∧
    r.1.seq = (q0 + ((sent.length + pls.length : Nat) : Int)) % 65536 ∧
    SInv r.1 q0 (sent ++ r.2) := by
  intro r
  obtain ⟨h1, h2, h3, h4⟩ := sendLoop_spec cfg (uint32_add cfg.tsOrigin encTs) pls.length pls 0 s q0 sent hI
  refine ⟨h3, ?_, ?_, h1⟩
  · intro k pl hk
    refine ⟨_, h4 k pl hk, ?_, ?_, rfl, rfl, rfl, rfl, by simp [mkPacket]⟩
    · simp only [mkPacket]; unfold seqAt; omega
    · simp only [mkPacket]; unfold uint32_add; omega
  · have := h1.seq
    show (sendLoop cfg (uint32_add cfg.tsOrigin encTs) pls.length 0 pls s).fst.seq = _
    rw [this]; unfold seqAt; simp only [List.length_append, h3]

/-- **Consecutive sequence numbers across frames**: in the ghost list `sent` of all first transmissions, packet
`j` has sequence number `q0 + j (mod 2^16)` (invariant `SInv`, established by `sinv_init`, kept by
`packetise_fields`, `retransmit_sinv`, `handleNack_sinv`). -/
theorem packetise_seq {s : Sender} {q0 : Int} {sent : List RtpPacket} (hI : SInv s q0 sent) (j : Nat) (p : RtpPacket)
    (hj : sent[j]? = some p) : (p.sequenceNumber : Int) = (q0 + (j : Int)) % 65536 := hI.seqs j p hj

/-- **History slot**: the packet filed under key `k` of `__rtp_history` is the one of the last 128 first
transmissions whose sequence number is `k` modulo 128. -/
theorem history_last128 {s : Sender} {q0 : Int} {sent : List RtpPacket} (hI : SInv s q0 sent) (k : Nat) (p : RtpPacket) :
    histGet s.history k = some p ↔
      ∃ j, j < sent.length ∧ sent.length ≤ j + 128 ∧ sent[j]? = some p ∧ (((q0 + (j : Int)) % 65536) % 128).toNat = k := by
  rw [hI.hist]
  constructor
  · rintro ⟨j, h1, h2, h3, h4⟩; exact ⟨j, h1, h2, h3, by rw [slotOfSeq_eq] at h4; exact h4⟩
  · rintro ⟨j, h1, h2, h3, h4⟩; exact ⟨j, h1, h2, h3, by rw [slotOfSeq_eq]; exact h4⟩

/-- **`history_hit`.** `_retransmit(sn)` sends something iff `sn` is the sequence number of one of the last 128
packets sent. -/
theorem history_hit (cfg : SenderCfg) {s : Sender} {q0 : Int} {sent : List RtpPacket} (hI : SInv s q0 sent) (sn : Int) :
    (retransmit cfg s sn).2 ≠ [] ↔ InHistory q0 sent sn := by
  rw [← lookup_spec hI sn]
  unfold retransmit
  constructor
  · intro h
    split at h
    · rename_i p hp
      split at h
      · rename_i hs; exact ⟨p, hp, hs⟩
      · exact absurd rfl h
    · exact absurd rfl h
  · rintro ⟨p, hp, hs⟩
    rw [hp]; simp only [hs, if_true]
    cases cfg.rtxPt <;> simp

/-- **Verbatim retransmission** (RTX not negotiated): the very packet that was sent, nothing else, sender state
unchanged. -/
theorem retransmit_verbatim (cfg : SenderCfg) (hr : cfg.rtxPt = none) {s : Sender} {q0 : Int} {sent : List RtpPacket}
    (hI : SInv s q0 sent) {j : Nat} {p : RtpPacket} (hj : sent[j]? = some p) (hlast : sent.length ≤ j + 128) :
    retransmit cfg s (p.sequenceNumber : Int) = (s, [p]) := by
  have hjl : j < sent.length := by
    rcases Nat.lt_or_ge j sent.length with h | h
    · exact h
    · rw [List.getElem?_eq_none h] at hj; cases hj
  have hp : histGet s.history (slotOfSeq (p.sequenceNumber : Int)) = some p :=
    (hI.hist _ p).2 ⟨j, hjl, hlast, hj, by rw [hI.seqs j p hj]⟩
  unfold retransmit
  rw [hp]; simp [hr]

/-- **RTX retransmission, invertible**: with RTX negotiated the packet is wrapped with the RTX payload type, the
RTX SSRC and the current RTX sequence number, and `unwrap_rtx` at the receiver gives back the packet that was
sent (C07 `rtx_invertible`), for a packet built by the packetisation loop (`padding_size = 0`). -/
theorem retransmit_rtx_invertible (cfg : SenderCfg) (rpt : Nat) (hr : cfg.rtxPt = some rpt) {s : Sender} {q0 : Int}
    {sent : List RtpPacket} (hI : SInv s q0 sent) {j : Nat} {p : RtpPacket} (hj : sent[j]? = some p)
    (hlast : sent.length ≤ j + 128) (hpad : p.paddingSize = 0) :
    ∃ w, retransmit cfg s (p.sequenceNumber : Int) = ({ s with rtxSeq := uint16_add s.rtxSeq 1 }, [w]) ∧
      w = wrapRtx p rpt s.rtxSeq.toNat cfg.rtxSsrc ∧
      w.payloadType = rpt ∧ w.ssrc = cfg.rtxSsrc ∧ w.sequenceNumber = s.rtxSeq.toNat ∧
      unwrapRtx w p.payloadType p.ssrc = .ok p := by
  have hjl : j < sent.length := by
    rcases Nat.lt_or_ge j sent.length with h | h
    · exact h
    · rw [List.getElem?_eq_none h] at hj; cases hj
  have hp : histGet s.history (slotOfSeq (p.sequenceNumber : Int)) = some p :=
    (hI.hist _ p).2 ⟨j, hjl, hlast, hj, by rw [hI.seqs j p hj]⟩
  have hseq : p.sequenceNumber < 65536 := by
    have := hI.seqs j p hj; unfold seqAt at this; omega
  refine ⟨_, ?_, rfl, rfl, rfl, rfl, ?_⟩
  · unfold retransmit; rw [hp]; simp [hr]
  · rw [Aiortc.Props.C07.rtx_invertible p hseq]
    congr 1; cases p; simp at hpad; simp [hpad]

/-- **RTX sequence counter**: every RTX retransmission uses the counter and advances it by one modulo 2^16; a
request that misses the history leaves it alone. -/
theorem rtx_seq_counter (cfg : SenderCfg) (s : Sender) (sn : Int) :
    (retransmit cfg s sn).1.rtxSeq =
      if (retransmit cfg s sn).2 ≠ [] ∧ cfg.rtxPt ≠ none then (s.rtxSeq + 1) % 65536 else s.rtxSeq := by
  unfold retransmit
  split
  · split
    · cases h : cfg.rtxPt <;> simp [uint16_add]
    · simp
  · simp

/-- A request for a sequence number outside the last 128 (older, never sent, or an alias ±2^16) sends nothing
and changes nothing. -/
theorem history_miss (cfg : SenderCfg) {s : Sender} {q0 : Int} {sent : List RtpPacket} (hI : SInv s q0 sent) (sn : Int)
    (h : ¬ InHistory q0 sent sn) : retransmit cfg s sn = (s, []) := by
  have hn : ¬ ∃ p, histGet s.history (slotOfSeq sn) = some p ∧ (p.sequenceNumber : Int) = sn := by
    rw [lookup_spec hI sn]; exact h
  unfold retransmit
  split
  · rename_i p hp
    split
    · rename_i hs; exact absurd ⟨p, hp, hs⟩ hn
    · rfl
  · rfl

/-! ### The RTX payload type `send(parameters)` derives from the codec list -/

theorem rtxScan_spec (pt0 : Nat) (cs : List SendCodec) (hapt : ∀ c ∈ cs, c.isRtx = true → c.apt ≠ none) :
    ∃ r, rtxScan pt0 cs = .ok r ∧
      (r = none ↔ ∀ c ∈ cs, ¬ (c.isRtx = true ∧ c.apt = some pt0)) ∧
      (∀ p, r = some p → ∃ pre c post, cs = pre ++ c :: post ∧ c.isRtx = true ∧ c.apt = some pt0 ∧ c.pt = p ∧
        ∀ d ∈ pre, ¬ (d.isRtx = true ∧ d.apt = some pt0)) := by
  induction cs with
  | nil => exact ⟨none, rfl, by simp, fun p h => by cases h⟩
  | cons c cs ih =>
    obtain ⟨r, e, h1, h2⟩ := ih (fun d hd => hapt d (List.mem_cons_of_mem _ hd))
    -- `c` does not match: the scan continues
    have skip : ¬ (c.isRtx = true ∧ c.apt = some pt0) → rtxScan pt0 (c :: cs) = rtxScan pt0 cs →
        ∃ r, rtxScan pt0 (c :: cs) = .ok r ∧
          (r = none ↔ ∀ d ∈ c :: cs, ¬ (d.isRtx = true ∧ d.apt = some pt0)) ∧
          (∀ p, r = some p → ∃ pre c' post, c :: cs = pre ++ c' :: post ∧ c'.isRtx = true ∧ c'.apt = some pt0 ∧ c'.pt = p ∧
            ∀ d ∈ pre, ¬ (d.isRtx = true ∧ d.apt = some pt0)) := by
      intro hc he
      refine ⟨r, by rw [he, e], ?_, ?_⟩
      · rw [h1]; constructor
        · intro h d hd; rcases List.mem_cons.1 hd with rfl | hd
          · exact hc
          · exact h d hd
        · intro h d hd; exact h d (List.mem_cons_of_mem _ hd)
      · intro p hp
        obtain ⟨pre, c', post, h3, h4, h5, h6, h7⟩ := h2 p hp
        refine ⟨c :: pre, c', post, by rw [h3]; rfl, h4, h5, h6, ?_⟩
        intro d hd; rcases List.mem_cons.1 hd with rfl | hd
        · exact hc
        · exact h7 d hd
    cases hr : c.isRtx with
    | false => exact skip (by simp [hr]) (by simp [rtxScan, hr])
    | true =>
      cases ha : c.apt with
      | none => exact absurd ha (hapt c List.mem_cons_self hr)
      | some a =>
        by_cases hm : a = pt0
        · subst hm
          refine ⟨some c.pt, by simp [rtxScan, hr, ha], ⟨(fun h => by cases h), (fun h => absurd ⟨hr, ha⟩ (h c List.mem_cons_self))⟩, ?_⟩
          intro p hp; injection hp with hp
          exact ⟨[], c, cs, rfl, hr, ha, hp, by simp⟩
        · exact skip (by rw [ha]; simp; intro _; exact hm) (by simp [rtxScan, hr, ha, hm])

/-- **`rtxFor_spec`.** For ANY shape of `parameters.codecs` (rtx entries of other codecs before or after, several
codecs each with rtx, duplicates, none) the sender retransmits as RTX iff some rtx codec names the SENDING payload
type `codecs[0].payloadType` as its `apt`; the RTX payload type is that of the first such entry; otherwise
retransmission is verbatim (`rtxPt = none`). -/
theorem rtxFor_spec (c0 : SendCodec) (cs : List SendCodec) (hapt : ∀ c ∈ c0 :: cs, c.isRtx = true → c.apt ≠ none)
    (ssrc rtxSsrc : Nat) (tsO : Int) :
    ∃ cfg, SenderCfg.ofCodecs ssrc rtxSsrc (c0 :: cs) tsO = .ok cfg ∧ cfg.pt = c0.pt ∧ cfg.ssrc = ssrc ∧
      cfg.rtxSsrc = rtxSsrc ∧
      (cfg.rtxPt = none ↔ ∀ c ∈ c0 :: cs, ¬ (c.isRtx = true ∧ c.apt = some c0.pt)) ∧
      (∀ p, cfg.rtxPt = some p → ∃ pre c post, c0 :: cs = pre ++ c :: post ∧ c.isRtx = true ∧ c.apt = some c0.pt ∧
        c.pt = p ∧ ∀ d ∈ pre, ¬ (d.isRtx = true ∧ d.apt = some c0.pt)) := by
  obtain ⟨r, e, h1, h2⟩ := rtxScan_spec c0.pt (c0 :: cs) hapt
  exact ⟨⟨ssrc, rtxSsrc, c0.pt, r, tsO⟩, by simp only [SenderCfg.ofCodecs, rtxFor, e], rfl, rfl, rfl, h1, h2⟩

/-- H264 (no rtx) first, then VP8 with its rtx: retransmissions of H264 are verbatim. -/
example : SenderCfg.ofCodecs 1 2 [⟨96, false, none⟩, ⟨98, false, none⟩, ⟨99, true, some 98⟩] 0 = .ok ⟨1, 2, 96, none, 0⟩ := by decide
/-- rtx of another codec listed first, duplicate rtx for the sending codec: the first matching one is used. -/
example : SenderCfg.ofCodecs 1 2 [⟨96, false, none⟩, ⟨99, true, some 98⟩, ⟨97, true, some 96⟩, ⟨98, false, none⟩, ⟨101, true, some 96⟩] 0 =
    .ok ⟨1, 2, 96, some 97, 0⟩ := by decide

/-! ## 2. `NackGenerator` -/

/-- **`add` never raises** on 16-bit sequence numbers (the `while` loop terminates) and keeps `NInv`. -/
theorem nack_add_total {g : NackGen} (hI : NInv g) (sn : Int) (hsn : R16 sn) :
    ∃ g' b, g.add sn = .ok (g', b) ∧ NInv g' := by
  obtain ⟨g', b, h1, h2, _⟩ := ninv_add hI sn hsn
  exact ⟨g', b, h1, h2⟩

/-- Any run of `add`s from a fresh generator. -/
def nackRun : NackGen → List Int → Outcome NackGen
  | g, [] => .ok g
  | g, x :: xs => match g.add x with
    | .ok (g1, _) => nackRun g1 xs
    | .valueError => .valueError | .crash k => .crash k | .hang => .hang

theorem nack_run_inv (xs : List Int) : ∀ {g : NackGen}, NInv g → (∀ x ∈ xs, R16 x) → ∃ g', nackRun g xs = .ok g' ∧ NInv g' := by
  induction xs with
  | nil => intro g hI _; exact ⟨g, rfl, hI⟩
  | cons x xs ih =>
    intro g hI hx
    obtain ⟨g1, b, e, hI1⟩ := nack_add_total hI x (hx x List.mem_cons_self)
    obtain ⟨g', e', hI'⟩ := ih hI1 (fun y hy => hx y (List.mem_cons_of_mem _ hy))
    exact ⟨g', by simp only [nackRun, e, e'], hI'⟩

/-- **`nack_bounded`.** After ANY sequence of arrivals (16-bit sequence numbers, any order, duplicates, jumps)
`missing` has no duplicates, every member lies 1 … 128 behind `max_seq`, hence at most 128 members: a NACK never
lists more than the 128-packet retransmission history. -/
theorem nack_bounded (xs : List Int) (hx : ∀ x ∈ xs, R16 x) :
    ∃ g, nackRun NackGen.init xs = .ok g ∧ g.missing.Nodup ∧ g.missing.length ≤ 128 ∧
      ∀ m, g.maxSeq = some m → ∀ x ∈ g.missing, 1 ≤ (m - x) % 65536 ∧ (m - x) % 65536 ≤ 128 := by
  obtain ⟨g, e, hI⟩ := nack_run_inv xs ninv_init hx
  exact ⟨g, e, hI.nodup, ninv_length hI, fun m hm x hxm => ((hI.win m hm).2 x hxm).2⟩

/-- Run over unwrapped stream indices: the arrival at index `i` carries sequence number `s0 + i (mod 2^16)`.
Returns the final generator and the `missed` flags. -/
def nackIdxRun (s0 : Int) : NackGen → List Nat → Outcome (NackGen × List Bool)
  | g, [] => .ok (g, [])
  | g, i :: is => match g.add (seqAt s0 i) with
    | .ok (g1, b) => match nackIdxRun s0 g1 is with
      | .ok (g2, bs) => .ok (g2, b :: bs)
      | .valueError => .valueError | .crash k => .crash k | .hang => .hang
    | .valueError => .valueError | .crash k => .crash k | .hang => .hang

/-- Every arrival is within 32 768 positions of the highest index seen so far. -/
def Tame : Nat → List Nat → Prop
  | _, [] => True
  | hi, i :: is => ((i : Int) < hi + 32768 ∧ (hi : Int) ≤ i + 32768) ∧ Tame (max hi i) is

theorem nack_idx_run (s0 : Int) (is : List Nat) : ∀ {g : NackGen} {first hi : Nat} {recv : Nat → Prop},
    NSpec g s0 first hi recv → Tame hi is →
    ∃ g' bs, nackIdxRun s0 g is = .ok (g', bs) ∧
      NSpec g' s0 first (is.foldl max hi) (fun j => recv j ∨ j ∈ is) := by
  induction is with
  | nil =>
    intro g first hi recv h _
    refine ⟨g, [], rfl, ?_⟩
    have : (fun j => recv j ∨ j ∈ ([] : List Nat)) = recv := by funext j; simp
    rw [this]; exact h
  | cons i is ih =>
    intro g first hi recv h ht
    obtain ⟨g1, b, e, h1, _⟩ := nspec_step h i ht.1
    obtain ⟨g', bs, e', h'⟩ := ih h1 ht.2
    refine ⟨g', b :: bs, by simp only [nackIdxRun, e, e'], ?_⟩
    have : (fun j => (recv j ∨ j = i) ∨ j ∈ is) = (fun j => recv j ∨ j ∈ i :: is) := by
      funext j; simp [or_assoc]
    rw [← this]; exact h'

/-- **`nack_complete`.** Arrivals `first :: is` (unwrapped indices, each within 32 768 positions of the highest
seen): afterwards `max_seq` is the sequence number of the highest index `hi`, and `missing` is EXACTLY the set of
sequence numbers of the indices `j` with `first < j < hi`, `hi - 128 ≤ j`, that have not arrived — every
not-yet-received number of the window is listed, and nothing else. -/
theorem nack_complete (s0 : Int) (hs : R16 s0) (first : Nat) (is : List Nat) (ht : Tame first is) :
    ∃ g bs, nackIdxRun s0 NackGen.init (first :: is) = .ok (g, bs) ∧
      g.maxSeq = some (seqAt s0 (is.foldl max first)) ∧
      ∀ x, x ∈ g.missing ↔ ∃ j, first < j ∧ j < is.foldl max first ∧ is.foldl max first ≤ j + 128 ∧
        j ≠ first ∧ j ∉ is ∧ x = seqAt s0 j := by
  obtain ⟨e0, h0⟩ := nspec_first s0 hs first
  obtain ⟨g, bs, e, h⟩ := nack_idx_run s0 is h0 ht
  refine ⟨g, false :: bs, by simp only [nackIdxRun, e0, e], h.max, ?_⟩
  intro x
  rw [h.mem]
  constructor
  · rintro ⟨j, h1, h2, h3, h4, h5⟩
    exact ⟨j, h1, h2, h3, fun e => h4 (Or.inl e), fun e => h4 (Or.inr e), h5⟩
  · rintro ⟨j, h1, h2, h3, h4, h5, h6⟩
    exact ⟨j, h1, h2, h3, fun e => e.elim h4 h5, h6⟩

/-- The `missed` flag (= "send a NACK now") is raised exactly when the arrival skips at least one index. -/
theorem nack_missed_iff {g : NackGen} {s0 : Int} {first hi : Nat} {recv : Nat → Prop} (h : NSpec g s0 first hi recv)
    (i : Nat) (hnear : (i : Int) < hi + 32768 ∧ (hi : Int) ≤ i + 32768) :
    ∃ g', g.add (seqAt s0 i) = .ok (g', decide (hi + 1 < i)) := by
  obtain ⟨g', b, e, _, hb⟩ := nspec_step h i hnear
  refine ⟨g', ?_⟩
  rw [e]; congr 2
  cases b <;> simp_all

/-- `sorted(missing)` has exactly the members of `missing`, each once. -/
theorem sortInts_mem (l : List Int) (x : Int) : x ∈ sortInts l ↔ x ∈ l := by
  have ins : ∀ (y : Int) (m : List Int), x ∈ insertSorted y m ↔ x = y ∨ x ∈ m := by
    intro y m
    induction m with
    | nil => simp [insertSorted]
    | cons z zs ih =>
      simp only [insertSorted]
      split
      · simp
      · simp [ih]; constructor
        · rintro (h | h | h)
          · exact Or.inr (Or.inl h)
          · exact Or.inl h
          · exact Or.inr (Or.inr h)
        · rintro (h | h | h)
          · exact Or.inr (Or.inl h)
          · exact Or.inl h
          · exact Or.inr (Or.inr h)
  induction l with
  | nil => simp [sortInts]
  | cons y ys ih => simp only [sortInts, List.foldr_cons] at ih ⊢; rw [ins]; simp [ih]

theorem sortInts_length (l : List Int) : (sortInts l).length = l.length := by
  have ins : ∀ (y : Int) (m : List Int), (insertSorted y m).length = m.length + 1 := by
    intro y m
    induction m with
    | nil => simp [insertSorted]
    | cons z zs ih => simp only [insertSorted]; split <;> simp [ih]
  induction l with
  | nil => simp [sortInts]
  | cons y ys ih => simp only [sortInts, List.foldr_cons] at ih ⊢; rw [ins, ih]; simp

/-! ## 3. `TimestampMapper` -/

/-- Run of `map` over a list of timestamps. -/
def tsRun : TsMap → List Int → Outcome (List Int)
  | _, [] => .ok []
  | m, t :: ts => match m.map t with
    | .ok (m1, v) => match tsRun m1 ts with
      | .ok vs => .ok (v :: vs)
      | .valueError => .valueError | .crash k => .crash k | .hang => .hang
    | .valueError => .valueError | .crash k => .crash k | .hang => .hang

/-- Offsets `d₀ ≤ d₁ ≤ …` with consecutive differences below 2^32. -/
def SlowGrowth : Nat → List Nat → Prop
  | _, [] => True
  | d, d' :: ds => d ≤ d' ∧ d' < d + 4294967296 ∧ SlowGrowth d' ds

theorem tsmap_run (t0 : Int) (ht : 0 ≤ t0 ∧ t0 < 4294967296) (d0 : Nat) (ds : List Nat) :
    ∀ (d : Nat) (o : Int), SlowGrowth d ds → o = (t0 + d) % 4294967296 - ((d : Int) - d0) →
      tsRun ⟨some ((t0 + d) % 4294967296), some o⟩ (ds.map fun (x : Nat) => (t0 + (x : Int)) % 4294967296) =
        .ok (ds.map fun (x : Nat) => (x : Int) - d0) := by
  induction ds with
  | nil => intro d o _ _; rfl
  | cons d' ds ih =>
    intro d o hg ho
    obtain ⟨h1, h2, h3⟩ := hg
    simp only [List.map_cons, tsRun, TsMap.map]
    by_cases hw : (t0 + (d' : Int)) % 4294967296 < (t0 + (d : Int)) % 4294967296
    · simp only [hw, if_true]
      have ho' : o - 4294967296 = (t0 + (d' : Int)) % 4294967296 - ((d' : Int) - d0) := by omega
      rw [ih d' _ h3 ho']
      simp only []
      congr 2; omega
    · simp only [hw, if_false]
      have ho' : o = (t0 + (d' : Int)) % 4294967296 - ((d' : Int) - d0) := by omega
      rw [ih d' _ h3 ho']
      simp only []
      congr 2; omega

/-- **`tsmap_unwraps`.** Frames whose RTP timestamps are `t0 + d_k (mod 2^32)` with `d_0 ≤ d_1 ≤ …` and steps
below 2^32 (any 32-bit origin `t0`, so the sequence may wrap any number of times) are mapped to `d_k - d_0`. -/
theorem tsmap_unwraps (t0 : Int) (ht : 0 ≤ t0 ∧ t0 < 4294967296) (d0 : Nat) (ds : List Nat) (hg : SlowGrowth d0 ds) :
    tsRun TsMap.init ((d0 :: ds).map fun (x : Nat) => (t0 + (x : Int)) % 4294967296) =
      .ok ((d0 :: ds).map fun (x : Nat) => (x : Int) - d0) := by
  simp only [List.map_cons, tsRun, TsMap.map, TsMap.init]
  rw [tsmap_run t0 ht d0 ds d0 _ hg (by omega)]
  simp

/-! ## 4. The receive path: the decoder queue gets exactly the jitter buffer's frames -/

/-- **Receive path, one call.** `_handle_rtp_packet` either stops before the jitter buffer (unknown payload type,
RTX from an unknown SSRC / too short / bad `apt`, payload that does not depayload: nothing is queued, the buffer
is untouched) or hands `JitterBuffer.add` exactly one packet `(sequence_number, timestamp, depayloaded payload)`,
and then a frame is queued exactly when the buffer returned one (decoder thread running), with the buffer's
bytes, and `pli_flag` is the buffer's. -/
theorem receiver_feeds_buffer (cfg : RecvCfg) (r : Receiver) (w : RtpPacket) (o : RecvOut)
    (e : handleRtp cfg r w = .ok o) :
    (o.fed = none ∧ o.r.jb = r.jb ∧ o.item = none ∧ o.pli = false) ∨
    (∃ jp out, o.fed = some jp ∧ Aiortc.Model.Jitter.add r.jb jp = .ok out ∧ o.r.jb = out.jb ∧ o.pli = out.pli ∧
      (∀ q, o.item = some q → ∃ f, out.frame = some f ∧ q.data = f.data ∧ o.used = out.used) ∧
      (cfg.decoder = true → ∀ f, out.frame = some f → ∃ q, o.item = some q)) := by
  unfold handleRtp at e
  split at e
  · injection e with e; subst e; exact Or.inl ⟨rfl, rfl, rfl, rfl⟩
  · split at e
    · injection e with e; subst e; exact Or.inl ⟨rfl, rfl, rfl, rfl⟩
    · rename_i q pt c2 _
      rcases feed_spec cfg r q pt c2 o e with ⟨_, h1, h2, h3, h4⟩ | ⟨data, out, _, h1, h2, h3, h4, h5, h6⟩
      · exact Or.inl ⟨h1, h2, h3, h4⟩
      · refine Or.inr ⟨_, out, h1, h2, h3, h4, ?_, h6⟩
        intro x hx; obtain ⟨f, a, b, _, d⟩ := h5 x hx; exact ⟨f, a, b, d⟩
    · cases e
    · cases e
    · cases e

/-- **Every NACK lists exactly `missing`**: the feedback of a call is `[NACK(sorted(missing))]` (after the
generator was updated) followed by `[PLI]`, each only when due and when `__rtcp_ssrc` is set. -/
theorem nack_lists_missing (cfg : RecvCfg) (r : Receiver) (p : RtpPacket) (pt : Nat) (c : Codec) (o : RecvOut)
    (e : feedStage cfg r p pt c = .ok o) (ssrc : Nat) (lost : List Int) (h : Fb.nack ssrc lost ∈ o.fb) :
    ssrc = p.ssrc ∧ lost = sortInts o.r.nack.missing ∧ (∀ x, x ∈ lost ↔ x ∈ o.r.nack.missing) ∧
      lost.length = o.r.nack.missing.length ∧ ∃ b, r.nack.add (p.sequenceNumber : Int) = .ok (o.r.nack, b) := by
  have key : ∀ (ng : NackGen) (missed : Bool) (fb2 : List Fb), (∀ s l, Fb.nack s l ∉ fb2) →
      Fb.nack ssrc lost ∈ (if missed = true then (match cfg.rtcpSsrc with
        | some _ => [Fb.nack p.ssrc (sortInts ng.missing)] | none => []) else []) ++ fb2 →
      ssrc = p.ssrc ∧ lost = sortInts ng.missing := by
    intro ng missed fb2 hfb2 hm
    rw [List.mem_append] at hm
    rcases hm with hm | hm
    · split at hm
      · split at hm
        · simp at hm; exact hm
        · simp at hm
      · simp at hm
    · exact absurd hm (hfb2 _ _)
  have nopli : ∀ (b : Bool), ∀ s l, Fb.nack s l ∉ (if b = true then (match cfg.rtcpSsrc with
      | some _ => [Fb.pli p.ssrc] | none => []) else [] : List Fb) := by
    intro b s l hm
    split at hm
    · split at hm <;> simp at hm
    · simp at hm
  unfold feedStage at e
  cases hn : r.nack.add (p.sequenceNumber : Int) with
  | valueError => rw [hn] at e; cases e
  | crash k => rw [hn] at e; cases e
  | hang => rw [hn] at e; cases e
  | ok v =>
    obtain ⟨ng, missed⟩ := v
    rw [hn] at e; simp only [] at e
    have fin : o.r.nack = ng → ssrc = p.ssrc ∧ lost = sortInts ng.missing →
        ssrc = p.ssrc ∧ lost = sortInts o.r.nack.missing ∧ (∀ x, x ∈ lost ↔ x ∈ o.r.nack.missing) ∧
        lost.length = o.r.nack.missing.length ∧ ∃ b, Outcome.ok (ng, missed) = Outcome.ok (o.r.nack, b) := by
      intro h1 ⟨h2, h3⟩
      rw [h1]
      exact ⟨h2, h3, fun x => by rw [h3]; exact sortInts_mem _ _, by rw [h3]; exact sortInts_length _, missed, rfl⟩
    split at e
    · injection e with e; subst e
      exact fin rfl (key ng missed [] (by simp) (by rw [List.append_nil]; exact h))
    · cases e
    · cases e
    · split at e
      · rename_i out _
        split at e
        · split at e
          · split at e
            · injection e with e; subst e; exact fin rfl (key ng missed _ (nopli _) h)
            · cases e
            · cases e
            · cases e
          · injection e with e; subst e; exact fin rfl (key ng missed _ (nopli _) h)
        · injection e with e; subst e; exact fin rfl (key ng missed _ (nopli _) h)
      · cases e
      · cases e
      · cases e

/-! ## 5. Frames entering the decoder queue are whole sender frames, in sending order -/

/-- Every arrival is a copy of the stream packet at the index it is labelled with. -/
def Arrivals (stream : List Packet) (arr : List (Nat × Packet)) : Prop := ∀ a ∈ arr, stream[a.1]? = some a.2

/-- Every arrival lies within 32 768 positions of the jitter buffer's (unwrapped) origin index of the moment. -/
def NearRun : JB → Nat → List (Nat × Packet) → Prop
  | _, _, [] => True
  | jb, oi, a :: rest =>
    (jb.origin ≠ none → Near oi a.1) ∧
    match Aiortc.Model.Jitter.add jb a.2 with
    | .ok out => NearRun out.jb (oiNext jb oi a.1 a.2 out) rest
    | _ => True

/-- The conclusion, along the run: each released frame is `pre ++ used = frames[k]` — the in-order concatenation
of the depayloaded packets of ONE sender frame or of a tail of it — and it is the whole frame (`pre = []`) when
`al` holds: a frame has been released before and no call since returned `pli_flag`.  No call raises. -/
def FramesWhole (frames : List (List Packet)) : JB → Bool → List (Nat × Packet) → Prop
  | _, _, [] => True
  | jb, al, a :: rest =>
    match Aiortc.Model.Jitter.add jb a.2 with
    | .ok out =>
      (∀ f, out.frame = some f → ∃ (k : Nat) (fr pre : List Packet), frames[k]? = some fr ∧ fr = pre ++ out.used ∧
          f.data = joinData out.used ∧ (∀ q ∈ out.used, q.ts = f.ts) ∧ ((al && !out.pli) = true → pre = [])) ∧
      FramesWhole frames out.jb (out.frame.isSome || (al && !out.pli)) rest
    | _ => False

theorem frames_whole_run {frames : List (List Packet)} (hF : FramesOK frames) {s0 : Int}
    (hS : StreamOK s0 frames.flatten) (arr : List (Nat × Packet)) :
    ∀ (jb : JB) (oi : Nat) (al : Bool), GInv s0 frames.flatten jb oi → jb.isVideo = true →
      (al = true → jb.origin ≠ none ∧ FrameStartIdx frames.flatten oi) →
      Arrivals frames.flatten arr → NearRun jb oi arr → FramesWhole frames jb al arr := by
  induction arr with
  | nil => intro jb oi al _ _ _ _ _; trivial
  | cons a rest ih =>
    intro jb oi al hG hv hal harr hnear
    have hj := harr a List.mem_cons_self
    have hp : R16 a.2.seq := by rw [hS.seqs a.1 a.2 hj]; unfold R16 seqAt; omega
    obtain ⟨out, e, _⟩ := Aiortc.Props.C10.jb_total hG.inv a.2 hp
    obtain ⟨oi2, hG', hSame, hoi, hnof, hrun, hnone, hpli, _, horig', _⟩ := gstep hS hG hj hnear.1 e
    have hnear' : NearRun out.jb (oiNext jb oi a.1 a.2 out) rest := by
      have := hnear.2; simp only [e] at this; exact this
    simp only [FramesWhole, e]
    rw [hoi] at hnear'
    refine ⟨?_, ih out.jb _ _ hG' (by rw [← hSame.2.2]; exact hv) ?_ (fun b hb => harr b (List.mem_cons_of_mem _ hb)) hnear'⟩
    · intro f hf
      obtain ⟨k, fr, pre, h1, h2, h3⟩ := run_is_frame hF (hrun f hf)
      refine ⟨k, fr, pre, h1, h2, (hrun f hf).2.2.1, (hrun f hf).2.2.2.1, ?_⟩
      intro hc
      simp only [Bool.and_eq_true, Bool.not_eq_true'] at hc
      obtain ⟨ho, hfs⟩ := hal hc.1
      apply h3
      rw [hpli hc.2 hv ho]; exact hfs
    · intro hc
      refine ⟨horig', ?_⟩
      cases hf : out.frame with
      | some f =>
        -- after a release the origin sits on the first packet of the next frame
        obtain ⟨hne, hidx, _, hts, q', hq', hqts⟩ := hrun f hf
        right
        have hlen : 0 < out.used.length := by
          cases hu : out.used with
          | nil => exact absurd hu hne
          | cons _ _ => simp
        have hlast : out.used[out.used.length - 1]? = some (out.used[out.used.length - 1]'(by omega)) :=
          List.getElem?_eq_getElem (by omega)
        refine ⟨out.used[out.used.length - 1]'(by omega), q', ?_, hq', ?_⟩
        · have := hidx _ _ hlast
          have e1 : oi2 + out.used.length - 1 = oi2 + (out.used.length - 1) := by omega
          rw [e1]; exact this
        · rw [hts _ (List.mem_of_getElem? hlast)]; exact fun h => hqts h.symm
      | none =>
        rw [hf] at hc
        simp only [Option.isSome_none, Bool.false_or, Bool.and_eq_true, Bool.not_eq_true'] at hc
        obtain ⟨ho, hfs⟩ := hal hc.1
        rw [hnof hf, hpli hc.2 hv ho]; exact hfs

/-- The video receiver's fresh buffer satisfies the invariant (any origin index: there is no origin yet). -/
theorem fresh_ginv (s0 : Int) (stream : List Packet) :
    ∃ jb0, Aiortc.Model.Jitter.mk 128 0 true = .ok jb0 ∧ GInv s0 stream jb0 0 ∧ jb0.isVideo = true ∧ jb0.origin = none := by
  obtain ⟨jb0, e, hI, hc, _, hv, ho⟩ := Aiortc.Props.C10.mk_inv 128 0 true ⟨7, by omega, rfl⟩
  exact ⟨jb0, e, ⟨hI, by rw [hc]; omega, (fun o h => by simp [ho] at h), fun s q h => absurd h (hI.empty ho s q)⟩, hv, ho⟩

/-- **`decoder_frames_whole`.** The sender's frames `frames` (non-empty, one timestamp each, adjacent frames with
different timestamps; consecutive 16-bit sequence numbers from any `s0`) are fed, as ANY list of copies of their
packets — lost, duplicated, reordered, retransmitted —, to the video receiver's fresh jitter buffer, every
arrival within 32 768 positions of the buffer's origin.  Then no call raises and every frame the buffer releases
(= every frame entering the decoder queue, `receiver_feeds_buffer`) is the in-order concatenation of the
depayloaded packets of ONE sender frame or of a tail of one; a strict tail only for the first release after the
stream start or after a call that returned `pli_flag`. -/
theorem decoder_frames_whole {frames : List (List Packet)} (hF : FramesOK frames) {s0 : Int}
    (hS : StreamOK s0 frames.flatten) (arr : List (Nat × Packet)) (harr : Arrivals frames.flatten arr) :
    ∃ jb0, Aiortc.Model.Jitter.mk 128 0 true = .ok jb0 ∧ (NearRun jb0 0 arr → FramesWhole frames jb0 false arr) := by
  obtain ⟨jb0, e, hG, hv, _⟩ := fresh_ginv s0 frames.flatten
  exact ⟨jb0, e, fun hn => frames_whole_run hF hS arr jb0 0 false hG hv (fun h => by cases h) harr hn⟩

/-- For streams of at most 32 768 packets the proximity hypothesis holds by itself. -/
theorem near_of_short {s0 : Int} {stream : List Packet} (hS : StreamOK s0 stream) (hlen : stream.length ≤ 32768)
    (arr : List (Nat × Packet)) : ∀ (jb : JB) (oi : Nat), GInv s0 stream jb oi → (jb.origin ≠ none → oi < stream.length) →
      Arrivals stream arr → NearRun jb oi arr := by
  induction arr with
  | nil => intro _ _ _ _ _; trivial
  | cons a rest ih =>
    intro jb oi hG hlt harr
    have hj := harr a List.mem_cons_self
    have hjl : a.1 < stream.length := by
      rcases Nat.lt_or_ge a.1 stream.length with h | h
      · exact h
      · rw [List.getElem?_eq_none h] at hj; cases hj
    have hn : jb.origin ≠ none → Near oi a.1 := by
      intro h; have := hlt h; unfold Near; omega
    refine ⟨hn, ?_⟩
    have hp : R16 a.2.seq := by rw [hS.seqs a.1 a.2 hj]; unfold R16 seqAt; omega
    obtain ⟨out, e, _⟩ := Aiortc.Props.C10.jb_total hG.inv a.2 hp
    obtain ⟨oi2, hG', _, hoi, _, _, hnone, _, _, _, hb⟩ := gstep hS hG hj hn e
    simp only [e]
    rw [hoi]
    refine ih out.jb _ hG' ?_ (fun b hb => harr b (List.mem_cons_of_mem _ hb))
    intro _
    rcases hb with hb | hb
    · by_cases ho : jb.origin = none
      · have hu := (Aiortc.Props.C10.first_add_no_frame hG.inv a.2 hp e ho).2
        have := hnone ho
        rw [hu]; simp; omega
      · rw [hb]; exact hlt ho
    · exact hb

/-- **`decoder_frames_whole`, short streams**: no ghost hypothesis at all for streams of at most 2^15 packets. -/
theorem decoder_frames_whole_short {frames : List (List Packet)} (hF : FramesOK frames) {s0 : Int}
    (hS : StreamOK s0 frames.flatten) (hlen : frames.flatten.length ≤ 32768) (arr : List (Nat × Packet))
    (harr : Arrivals frames.flatten arr) :
    ∃ jb0, Aiortc.Model.Jitter.mk 128 0 true = .ok jb0 ∧ FramesWhole frames jb0 false arr := by
  obtain ⟨jb0, e, hG, hv, ho⟩ := fresh_ginv s0 frames.flatten
  exact ⟨jb0, e, frames_whole_run hF hS arr jb0 0 false hG hv (fun h => by cases h) harr
    (near_of_short hS hlen arr jb0 0 hG (fun h => absurd ho h) harr)⟩

/-! ## 6. Frames enter the decoder queue in sending order -/

/-- Ghost: `(start index, length)` in the sender's packet sequence of every frame released along the run. -/
def releases : JB → Nat → List (Nat × Packet) → List (Nat × Nat)
  | _, _, [] => []
  | jb, oi, a :: rest =>
    match Aiortc.Model.Jitter.add jb a.2 with
    | .ok out =>
      (if out.frame.isSome then [(oiNext jb oi a.1 a.2 out - out.used.length, out.used.length)] else []) ++
        releases out.jb (oiNext jb oi a.1 a.2 out) rest
    | _ => []

/-- **`decoder_frames_in_order`.** Under C10's hypothesis (no arrival 100 or more positions behind the origin)
the released frames occupy pairwise disjoint, strictly increasing ranges of the sender's packet sequence: frames
reach the decoder in sending order, none twice.  Each range is a run inside the stream. -/
theorem decoder_frames_in_order {s0 : Int} {stream : List Packet} (hS : StreamOK s0 stream) (arr : List (Nat × Packet)) :
    ∀ (jb : JB) (oi : Nat), GInv s0 stream jb oi → Arrivals stream arr → NearRun jb oi arr →
      Aiortc.Props.C10.NoLateRun jb (arr.map (·.2)) →
      (releases jb oi arr).Pairwise (fun x y => x.1 + x.2 ≤ y.1) ∧
      (jb.origin ≠ none → ∀ x ∈ releases jb oi arr, oi ≤ x.1) ∧
      ∀ x ∈ releases jb oi arr, 1 ≤ x.2 ∧ x.1 + x.2 < stream.length := by
  induction arr with
  | nil => intro jb oi _ _ _ _; simp [releases]
  | cons a rest ih =>
    intro jb oi hG harr hnear hnl
    have hj := harr a List.mem_cons_self
    have hp : R16 a.2.seq := by rw [hS.seqs a.1 a.2 hj]; unfold R16 seqAt; omega
    obtain ⟨out, e, _⟩ := Aiortc.Props.C10.jb_total hG.inv a.2 hp
    obtain ⟨oi2, hG', _, hoi, hnof, hrun, _, _, hmono, horig', _⟩ := gstep hS hG hj hnear.1 e
    have hnear' : NearRun out.jb (oiNext jb oi a.1 a.2 out) rest := by
      have := hnear.2; simp only [e] at this; exact this
    have hnl' : Aiortc.Props.C10.NoLateRun out.jb (rest.map (·.2)) := by
      have := hnl.2; simp only [e] at this; exact this
    rw [hoi] at hnear'
    obtain ⟨ih1, ih2, ih3⟩ := ih out.jb _ hG' (fun b hb => harr b (List.mem_cons_of_mem _ hb)) hnear' hnl'
    have ih2' := ih2 horig'
    simp only [releases, e, hoi]
    cases hf : out.frame with
    | none =>
      simp only [Option.isSome_none, Bool.false_eq_true, if_false, List.nil_append]
      refine ⟨ih1, ?_, ih3⟩
      intro ho x hx
      have := ih2' x hx; have := hmono hnl.1 ho; omega
    | some f =>
      obtain ⟨hne, _, _, _, q', hq', _⟩ := hrun f hf
      have hlen : 1 ≤ out.used.length := by
        cases hu : out.used with
        | nil => exact absurd hu hne
        | cons _ _ => simp
      have hlt : oi2 + out.used.length < stream.length := by
        rcases Nat.lt_or_ge (oi2 + out.used.length) stream.length with h | h
        · exact h
        · rw [List.getElem?_eq_none h] at hq'; cases hq'
      simp only [Option.isSome_some, if_true, List.singleton_append, Nat.add_sub_cancel]
      refine ⟨List.pairwise_cons.2 ⟨fun y hy => by have := ih2' y hy; simp only []; omega, ih1⟩, ?_, ?_⟩
      · intro ho x hx
        rcases List.mem_cons.1 hx with h | h
        · rw [h]; exact hmono hnl.1 ho
        · have := ih2' x h; have := hmono hnl.1 ho; omega
      · intro x hx
        rcases List.mem_cons.1 hx with h | h
        · rw [h]; exact ⟨hlen, hlt⟩
        · exact ih3 x h

/-! ## 7. Recovery: a NACKed packet that is still in the history comes back and reaches the jitter buffer -/

/-- What SDP negotiation establishes between the sender's and the receiver's tables. -/
structure Negotiated (sc : SenderCfg) (rc : RecvCfg) (c : Codec) : Prop where
  media : lookupNat rc.codecs sc.pt = some c
  notRtx : c.name ≠ .rtx
  rtx : ∀ rpt, sc.rtxPt = some rpt →
    lookupNat rc.codecs rpt = some ⟨.rtx, some sc.pt⟩ ∧ lookupNat rc.rtxSsrc sc.rtxSsrc = some sc.ssrc

/-- The packet `_retransmit` puts on the wire for `p`: `p` itself, or `wrap_rtx(p, …)` with some RTX sequence
number `rs`. -/
def Retransmission (sc : SenderCfg) (p w : RtpPacket) : Prop :=
  match sc.rtxPt with
  | none => w = p
  | some rpt => ∃ rs, w = wrapRtx p rpt rs sc.rtxSsrc

/-- **A retransmission is processed exactly as the original would be** (RTX unwrap inverts the wrap; verbatim
otherwise): same receiver state afterwards, same feedback, same decoder item. -/
theorem retransmission_equiv {sc : SenderCfg} {rc : RecvCfg} {c : Codec} (hN : Negotiated sc rc c) {p w : RtpPacket}
    (hp : p.payloadType = sc.pt ∧ p.ssrc = sc.ssrc ∧ p.paddingSize = 0 ∧ p.sequenceNumber < 65536)
    (hw : Retransmission sc p w) (r : Receiver) : handleRtp rc r w = handleRtp rc r p := by
  obtain ⟨hpt, hss, hpad, hseq⟩ := hp
  have horig : handleRtp rc r p = feedStage rc r p sc.pt c := by
    unfold handleRtp unwrapStage
    rw [hpt, hN.media]; simp [hN.notRtx]
  unfold Retransmission at hw
  cases hr : sc.rtxPt with
  | none => rw [hr] at hw; rw [hw]
  | some rpt =>
    rw [hr] at hw; obtain ⟨rs, hw⟩ := hw
    obtain ⟨h1, h2⟩ := hN.rtx rpt hr
    have hun : unwrapRtx w sc.pt sc.ssrc = .ok p := by
      rw [hw, ← hpt, ← hss, Aiortc.Props.C07.rtx_invertible p hseq]
      congr 1; cases p; simp at hpad; simp [hpad]
    have hlen : ¬ w.payload.length < 2 := by rw [hw]; simp [wrapRtx, u16be]
    have hwpt : w.payloadType = rpt := by rw [hw]; rfl
    have hwss : w.ssrc = sc.rtxSsrc := by rw [hw]; rfl
    rw [horig]
    unfold handleRtp unwrapStage
    rw [hwpt, h1]; simp only [if_true]
    rw [hwss, h2]; simp only [hN.media, hlen, if_false, hun]

/-- `_handle_rtcp_packet(NACK lost)` retransmits every listed sequence number that is still in the history. -/
theorem handleNack_hits (sc : SenderCfg) (lost : List Int) : ∀ {s : Sender} {q0 : Int} {sent : List RtpPacket},
    SInv s q0 sent → ∀ {j : Nat} {p : RtpPacket}, sent[j]? = some p → sent.length ≤ j + 128 →
      (p.sequenceNumber : Int) ∈ lost → ∃ w ∈ (handleNack sc s lost).2, Retransmission sc p w := by
  induction lost with
  | nil => intro s q0 sent _ j p _ _ h; cases h
  | cons x xs ih =>
    intro s q0 sent hI j p hj hl hm
    simp only [handleNack]
    rcases List.mem_cons.1 hm with h | h
    · subst h
      have hjl : j < sent.length := by
        rcases Nat.lt_or_ge j sent.length with h | h
        · exact h
        · rw [List.getElem?_eq_none h] at hj; cases hj
      have hp : histGet s.history (slotOfSeq (p.sequenceNumber : Int)) = some p :=
        (hI.hist _ p).2 ⟨j, hjl, hl, hj, by rw [hI.seqs j p hj]⟩
      cases hr : sc.rtxPt with
      | none =>
        refine ⟨p, List.mem_append_left _ ?_, by unfold Retransmission; rw [hr]⟩
        unfold retransmit; rw [hp]; simp [hr]
      | some rpt =>
        refine ⟨wrapRtx p rpt s.rtxSeq.toNat sc.rtxSsrc, List.mem_append_left _ ?_, by unfold Retransmission; rw [hr]; exact ⟨_, rfl⟩⟩
        unfold retransmit; rw [hp]; simp [hr]
    · obtain ⟨w, hw, hr⟩ := ih (retransmit_sinv hI sc x) hj hl h
      exact ⟨w, List.mem_append_right _ hw, hr⟩

/-- **`loop_recovers_partial`.** A packet `p` of the stream was lost; the receiver's NACK lists its sequence
number and is delivered while `p` is still among the sender's last 128 packets.  Then the sender puts a
retransmission `w` of `p` on the wire (verbatim, or RTX-wrapped when negotiated); when `w` is delivered the
receiver treats it exactly as it would have treated `p`: it hands `(seq, timestamp, depayloaded payload)` to the
jitter buffer, and the sequence number is no longer `missing`.
Gap to the full clause ("every frame is eventually delivered while traffic continues"): NACKs are emitted only when
a NEW gap is detected (there is no timer), so a lost NACK or a lost retransmission is only repaired if a later
gap triggers another NACK while the packet is still in the 128-packet history, and whether the recovered packet
is still useful is the jitter buffer's business (C10: it is placed iff it is not behind the origin). -/
theorem loop_recovers_partial {sc : SenderCfg} {rc : RecvCfg} {c : Codec} (hN : Negotiated sc rc c)
    {s : Sender} {q0 : Int} {sent : List RtpPacket} (hI : SInv s q0 sent) {j : Nat} {p : RtpPacket}
    (hj : sent[j]? = some p) (hhist : sent.length ≤ j + 128)
    (hp : p.payloadType = sc.pt ∧ p.ssrc = sc.ssrc ∧ p.paddingSize = 0)
    (lost : List Int) (hlost : (p.sequenceNumber : Int) ∈ lost) :
    ∃ w ∈ (handleNack sc s lost).2, Retransmission sc p w ∧
      ∀ (r : Receiver) (o : RecvOut), NInv r.nack → handleRtp rc r w = .ok o →
        handleRtp rc r p = .ok o ∧ (p.sequenceNumber : Int) ∉ o.r.nack.missing ∧
        ∀ data, dataOf c p = .ok data → o.fed = some (jbPacket p data) := by
  have hseq : p.sequenceNumber < 65536 := by have := hI.seqs j p hj; unfold seqAt at this; omega
  obtain ⟨w, hw, hr⟩ := handleNack_hits sc lost hI hj hhist hlost
  refine ⟨w, hw, hr, ?_⟩
  intro r o hnI e
  rw [retransmission_equiv hN ⟨hp.1, hp.2.1, hp.2.2, hseq⟩ hr r] at e
  refine ⟨e, ?_, ?_⟩
  · have horig : handleRtp rc r p = feedStage rc r p sc.pt c := by
      unfold handleRtp unwrapStage
      rw [hp.1, hN.media]; simp [hN.notRtx]
    rw [horig] at e
    obtain ⟨g', b, hadd, _, _, hnot⟩ := ninv_add hnI (p.sequenceNumber : Int) (by unfold R16; omega)
    -- the generator of the outcome is the updated one in every branch of `feedStage`
    have : o.r.nack = g' := by
      unfold feedStage at e
      rw [hadd] at e; simp only [] at e
      split at e
      · injection e with e; subst e; rfl
      · cases e
      · cases e
      · split at e
        · split at e
          · split at e
            · split at e
              · injection e with e; subst e; rfl
              · cases e
              · cases e
              · cases e
            · injection e with e; subst e; rfl
          · injection e with e; subst e; rfl
        · cases e
        · cases e
        · cases e
    rw [this]; exact hnot
  · intro data hd
    have horig : handleRtp rc r p = feedStage rc r p sc.pt c := by
      unfold handleRtp unwrapStage
      rw [hp.1, hN.media]; simp [hN.notRtx]
    rw [horig] at e
    rcases feed_spec rc r p sc.pt c o e with ⟨h, _⟩ | ⟨data', out, h1, h2, _⟩
    · rw [hd] at h; cases h
    · rw [hd] at h1; injection h1 with h1; rw [← h1] at h2; exact h2

/-! ## 8. Non-vacuity: the hypotheses are satisfiable, the conclusions are exercised -/

def exCfg : SenderCfg := ⟨1234, 2345, 96, some 97, 4294967290⟩
def exS0 : Sender := ⟨65535, 65535, []⟩

/-- A frame of two payloads sent from sequence number 65535 / timestamp origin 2^32-6 crosses both wraps. -/
example : (sendFrame exCfg exS0 10 [[16, 1], [0, 2]]).2.map (fun p => (p.sequenceNumber, p.timestamp, p.marker)) =
    [(65535, 4, 0), (0, 4, 1)] := by decide

example : SInv exS0 65535 [] := sinv_init 65535 65535 (by omega)

/-- … the second packet is retransmitted as RTX with sequence number 65535, and unwraps to itself. -/
example : (retransmit exCfg (sendFrame exCfg exS0 10 [[16, 1], [0, 2]]).1 0).2.map
    (fun w => (w.payloadType, w.ssrc, w.sequenceNumber, w.payload)) = [(97, 2345, 65535, [0, 0, 0, 2])] := by decide

/-- A sequence number outside the history (here: 65536 + 0, an alias) is not retransmitted. -/
example : (retransmit exCfg (sendFrame exCfg exS0 10 [[16, 1], [0, 2]]).1 65536).2 = [] := by decide

/-- `Tame` / `nack_complete`: arrivals 0, 3, 1 from origin 65534 leave exactly index 2 (= sequence number 0) missing. -/
example : Tame 0 [3, 1] := by simp [Tame]
example : (nackIdxRun 65534 NackGen.init [0, 3, 1]).bind (fun r => .ok (r.1.missing, r.2)) =
    .ok ([0], [false, true, false]) := by decide

example : SlowGrowth 0 [3000, 6000] := by simp [SlowGrowth]
example : tsRun TsMap.init [4294967295, 2999, 5999] = .ok [0, 3000, 6000] := by decide

def exFrames : List (List Packet) := [[⟨65535, 10, [1]⟩, ⟨0, 10, [2]⟩], [⟨1, 20, [3]⟩], [⟨2, 30, [4]⟩]]

theorem exFrames_ok : FramesOK exFrames := by
  refine ⟨by decide, by decide, ?_⟩
  intro k fr1 fr2 h1 h2
  match k, h1, h2 with
  | 0, h1, h2 => simp [exFrames] at h1 h2; subst h1; subst h2; decide
  | 1, h1, h2 => simp [exFrames] at h1 h2; subst h1; subst h2; decide
  | k + 2, h1, h2 => simp [exFrames] at h2

theorem exStream_ok : StreamOK 65535 exFrames.flatten := by
  refine ⟨by unfold R16; omega, ?_⟩
  intro j p h
  match j, h with
  | 0, h => simp [exFrames] at h; subst h; decide
  | 1, h => simp [exFrames] at h; subst h; decide
  | 2, h => simp [exFrames] at h; subst h; decide
  | 3, h => simp [exFrames] at h; subst h; decide
  | j + 4, h => simp [exFrames] at h

/-- Loss of the first packet, duplication and reordering: the first release is a strict tail (allowed: stream
start), the second a whole frame. -/
example : (Aiortc.Model.Jitter.run ⟨8, 0, true, none, List.replicate 8 none⟩
      [⟨0, 10, [2]⟩, ⟨2, 30, [4]⟩, ⟨0, 10, [2]⟩, ⟨1, 20, [3]⟩, ⟨2, 30, [4]⟩]).bind (fun r => .ok (r.2.filterMap (·.2))) =
    .ok [⟨[2], 10⟩, ⟨[3], 20⟩] := by decide

/-- Arrivals: the first packet is lost, packet 3 overtakes, packet 1 arrives twice — every entry is a copy of the
stream packet at its index. -/
def exArr : List (Nat × Packet) := [(1, ⟨0, 10, [2]⟩), (3, ⟨2, 30, [4]⟩), (1, ⟨0, 10, [2]⟩), (2, ⟨1, 20, [3]⟩), (3, ⟨2, 30, [4]⟩)]

theorem exArr_ok : Arrivals exFrames.flatten exArr := by
  intro a ha
  simp only [exArr, List.mem_cons, List.mem_nil_iff, or_false] at ha
  rcases ha with rfl | rfl | rfl | rfl | rfl <;> decide

/-- `decoder_frames_whole_short` and `decoder_frames_in_order` apply to this run (all hypotheses hold). -/
example : ∃ jb0, Aiortc.Model.Jitter.mk 128 0 true = .ok jb0 ∧ FramesWhole exFrames jb0 false exArr :=
  decoder_frames_whole_short exFrames_ok exStream_ok (by decide) exArr exArr_ok

example : Aiortc.Props.C10.NoLateRun ⟨8, 0, true, none, List.replicate 8 none⟩ (exArr.map (·.2)) :=
  (Aiortc.Props.C10.noLateRun_iff _ _).2 (by decide)

/-- The two releases of that run occupy stream ranges [1,2) and [2,3): increasing, disjoint. -/
example : releases ⟨8, 0, true, none, List.replicate 8 none⟩ 0 exArr = [(1, 1), (2, 1)] := by decide

example : Negotiated exCfg ⟨[(96, ⟨.vp8, none⟩), (97, ⟨.rtx, some 96⟩)], [(2345, 1234)], some 1, true⟩ ⟨.vp8, none⟩ :=
  ⟨by decide, by decide, fun rpt h => by simp [exCfg] at h; subst h; exact ⟨by decide, by decide⟩⟩

end Aiortc.Props.C11
