import Aiortc.Lemmas.Router
import Aiortc.Lemmas.Remb
import Aiortc.Lemmas.C12.Many
/-!
# C12 — bundled RTP/RTCP is routed to exactly the right receivers and senders

Model: `Aiortc.Model.Router` (`RtpRouter` of src/aiortc/rtcdtlstransport.py + `rtp.unpack_remb_fci`,
the latter with fixes/C12-remb-truncated-fci.patch).  Vocabulary (Lemmas/Router.lean):

* `ssrcOf st x`      — the receiver registered for SSRC `x`   (`ssrc_table.get(x)`)
* `accepts st pt r`  — receiver `r` accepts payload type `pt` (`r in payload_type_table.get(pt, set())`)
* `senderOf st x`    — the sender registered for SSRC `x`     (`senders.get(x)`)
* `WF st`            — representation invariant; holds in every state reachable from `RtpRouter()`
                       (`reachable_wf`), so every theorem with a `WF` hypothesis applies to every history.

All statements quantify over all states / histories / packets; nothing is enumerated.
-/
namespace Aiortc.Props.C12
open Aiortc Aiortc.Model.Router

/-! ## 0. Every reachable state is well formed; how the operations act on the abstract view -/

/-- Any history from a fresh `RtpRouter()` ends in a well-formed state. -/
theorem reachable_wf (ops : List Op) : WF (run Router.empty ops).1 := WF.empty.run ops

/-- … and well-formedness is preserved from any well-formed state. -/
theorem wf_preserved {st : Router} (h : WF st) (ops : List Op) : WF (run st ops).1 := h.run ops

/-- `register_receiver`: the listed SSRCs now belong to `r` (others unchanged), `r` additionally
accepts the listed payload types (nobody loses one), `r` is registered, senders untouched. -/
theorem register_receiver_spec (st : Router) (r : Nat) (ssrcs pts : List Nat) (mid : Option String) :
    let st' := registerReceiver st r ssrcs pts mid
    (∀ x, ssrcOf st' x = if x ∈ ssrcs then some r else ssrcOf st x) ∧
    (∀ pt r', accepts st' pt r' ↔ (r' = r ∧ pt ∈ pts) ∨ accepts st pt r') ∧
    (∀ r', r' ∈ st'.receivers ↔ r' = r ∨ r' ∈ st.receivers) ∧
    st'.senders = st.senders := by
  refine ⟨fun x => dget_foldl_dset r ssrcs _ x, fun pt r' => mem_ptSet_foldl_ptAdd r pts _ pt r',
    fun r' => mem_sadd, rfl⟩

/-- `unregister_receiver` (well-formed state): exactly the SSRCs of `r` become unknown, `r` accepts
nothing any more, everybody else keeps what they had. -/
theorem unregister_receiver_spec {st : Router} (h : WF st) (r : Nat) :
    let st' := unregisterReceiver st r
    (∀ x, ssrcOf st' x = if ssrcOf st x = some r then none else ssrcOf st x) ∧
    (∀ pt r', accepts st' pt r' ↔ r' ≠ r ∧ accepts st pt r') ∧
    (∀ r', r' ∈ st'.receivers ↔ r' ≠ r ∧ r' ∈ st.receivers) ∧
    st'.senders = st.senders := by
  refine ⟨fun x => dget_ddiscard x r h.ssrcKeys, fun pt r' => ?_, fun r' => mem_sdiscard, rfl⟩
  show r' ∈ ptSet (st.ptTable.map _) pt ↔ _
  rw [ptSet_map_sdiscard]; exact mem_sdiscard

/-- `register_sender`: SSRC `ssrc` now belongs to sender `s`; nothing else changes. -/
theorem register_sender_spec (st : Router) (s ssrc : Nat) :
    let st' := registerSender st s ssrc
    (∀ x, senderOf st' x = if x = ssrc then some s else senderOf st x) ∧
    st'.ssrcTable = st.ssrcTable ∧ st'.ptTable = st.ptTable ∧ st'.receivers = st.receivers :=
  ⟨fun x => dget_dset ssrc x s _, rfl, rfl, rfl⟩

/-- `unregister_sender` (well-formed state): exactly the SSRCs of `s` lose their sender. -/
theorem unregister_sender_spec {st : Router} (h : WF st) (s : Nat) :
    let st' := unregisterSender st s
    (∀ x, senderOf st' x = if senderOf st x = some s then none else senderOf st x) ∧
    st'.ssrcTable = st.ssrcTable ∧ st'.ptTable = st.ptTable ∧ st'.receivers = st.receivers :=
  ⟨fun x => dget_ddiscard x s h.sndKeys, rfl, rfl, rfl⟩

/-! ## 1. RTP -/

theorem only_acceptor_iff {l : List Nat} (hn : l.Nodup) (r : Nat) : (∀ x, x ∈ l ↔ x = r) ↔ l = [r] :=
  ⟨eq_singleton_of_nodup hn, fun h => by subst h; simp⟩

/-- **RTP routing.** The packet is handed to `r` exactly when `r` is registered for its SSRC and
accepts its payload type, or its SSRC is unknown and `r` is the only receiver accepting its payload
type.  In every other case it is dropped (the result is an `Option`: at most one receiver). -/
theorem route_rtp_spec {st : Router} (h : WF st) (ssrc pt r : Nat) :
    (routeRtp st ssrc pt).2 = some r ↔
      (ssrcOf st ssrc = some r ∧ accepts st pt r) ∨
      (ssrcOf st ssrc = none ∧ ∀ r', accepts st pt r' ↔ r' = r) := by
  unfold accepts
  rw [only_acceptor_iff (h.ptNodup pt)]
  unfold routeRtp ssrcOf
  cases hs : dget ssrc st.ssrcTable with
  | some r0 =>
    by_cases hm : r0 ∈ ptSet st.ptTable pt
    · simp only [hm, if_true, Option.some.injEq, reduceCtorEq, false_and, or_false]
      constructor
      · rintro rfl; exact ⟨rfl, hm⟩
      · exact fun h => h.1
    · simp only [hm, if_false, Option.some.injEq, reduceCtorEq, false_and, or_false]
      constructor
      · intro h; cases h
      · rintro ⟨rfl, h2⟩; exact absurd h2 hm
  | none =>
    simp only [reduceCtorEq, false_and, false_or, true_and]
    split
    · rename_i r1 hr; rw [hr]; simp
    · rename_i hne
      constructor
      · intro h; cases h
      · intro h; exact absurd h (hne r)

/-- Dropped means dropped: `none` exactly when neither case applies to any receiver. -/
theorem route_rtp_none_iff {st : Router} (h : WF st) (ssrc pt : Nat) :
    (routeRtp st ssrc pt).2 = none ↔
      ∀ r, ¬ ((ssrcOf st ssrc = some r ∧ accepts st pt r) ∨
              (ssrcOf st ssrc = none ∧ ∀ r', accepts st pt r' ↔ r' = r)) := by
  constructor
  · intro hn r hr
    rw [← route_rtp_spec h] at hr; rw [hn] at hr; cases hr
  · intro hall
    cases hres : (routeRtp st ssrc pt).2 with
    | none => rfl
    | some r => exact absurd ((route_rtp_spec h ssrc pt r).1 hres) (hall r)

/-- **Latching / state effect.** `route_rtp` changes nothing but the binding of the packet's own SSRC,
and only when that SSRC was unknown: it is then bound to the receiver the packet was handed to. -/
theorem route_rtp_state (st : Router) (ssrc pt : Nat) :
    let st' := (routeRtp st ssrc pt).1
    st'.receivers = st.receivers ∧ st'.senders = st.senders ∧ st'.midTable = st.midTable ∧
    st'.ptTable = st.ptTable ∧
    ∀ x, ssrcOf st' x =
      if x = ssrc ∧ ssrcOf st ssrc = none then (routeRtp st ssrc pt).2 else ssrcOf st x := by
  unfold routeRtp ssrcOf
  cases hs : dget ssrc st.ssrcTable with
  | some r0 =>
    simp only [reduceCtorEq, and_false, if_false]
    split <;> exact ⟨rfl, rfl, rfl, rfl, fun _ => rfl⟩
  | none =>
    simp only [and_true]
    split
    · refine ⟨rfl, rfl, rfl, rfl, fun x => ?_⟩
      simp only [dget_dset]
    · refine ⟨rfl, rfl, rfl, rfl, fun x => ?_⟩
      by_cases hx : x = ssrc
      · subst hx; simp [hs]
      · simp [hx]

/-- "…and that SSRC sticks to it": right after a packet was handed to `r`, its SSRC is bound to `r`. -/
theorem route_rtp_binds (st : Router) (ssrc pt r : Nat) (h : (routeRtp st ssrc pt).2 = some r) :
    ssrcOf (routeRtp st ssrc pt).1 ssrc = some r := by
  have := (route_rtp_state st ssrc pt).2.2.2.2 ssrc
  rw [this]
  by_cases hn : ssrcOf st ssrc = none
  · simp [hn, h]
  · simp only [hn, and_false, if_false]
    unfold routeRtp at h; unfold ssrcOf at hn ⊢
    cases hs : dget ssrc st.ssrcTable with
    | none => exact absurd hs hn
    | some r0 =>
      rw [hs] at h; simp only at h
      split at h
      · simpa using h
      · cases h

/-- An RTP packet is only ever handed to a currently registered receiver. -/
theorem route_rtp_registered {st : Router} (h : WF st) (ssrc pt r : Nat)
    (hr : (routeRtp st ssrc pt).2 = some r) : r ∈ st.receivers := by
  rcases (route_rtp_spec h ssrc pt r).1 hr with ⟨_, ha⟩ | ⟨_, ha⟩
  · exact h.ptRecv pt r ha
  · exact h.ptRecv pt r ((ha r).2 rfl)

/-! ### the binding persists ("from then on") -/

/-- Operations that may change who owns SSRC `x` when it is bound to `r`: unregistering `r`, or a
registration that lists `x`. -/
def rebinds (x r : Nat) : Op → Prop
  | .unregReceiver r' => r' = r
  | .regReceiver _ ssrcs _ _ => x ∈ ssrcs
  | _ => False

theorem step_keeps_binding {st : Router} {x r : Nat} (hb : ssrcOf st x = some r) (op : Op)
    (hop : ¬ rebinds x r op) : ssrcOf (step st op).1 x = some r := by
  cases op with
  | regReceiver r' ssrcs pts mid =>
    have := (register_receiver_spec st r' ssrcs pts mid).1 x
    simp only [rebinds] at hop
    simpa [step, hop, hb] using this
  | regSender s ssrc => exact hb
  | unregReceiver r' =>
    simp only [rebinds] at hop
    exact dget_ddiscard_of_ne hb (fun e => hop e.symm)
  | unregSender s => exact hb
  | rtp ssrc pt =>
    have := (route_rtp_state st ssrc pt).2.2.2.2 x
    show ssrcOf (routeRtp st ssrc pt).1 x = some r
    rw [this]
    by_cases hx : x = ssrc
    · subst hx; simp [hb]
    · simp [hx, hb]
  | rtcp p => exact hb

/-- **Sticks from then on.** Once SSRC `x` is bound to `r` (by registration or by latching), it stays
bound to `r` through every history that neither unregisters `r` nor re-registers `x`. -/
theorem latch_sticks {st : Router} {x r : Nat} (hb : ssrcOf st x = some r) (ops : List Op)
    (hops : ∀ op ∈ ops, ¬ rebinds x r op) : ssrcOf (run st ops).1 x = some r := by
  induction ops generalizing st with
  | nil => exact hb
  | cons op ops ih =>
    rw [run_cons]
    exact ih (step_keeps_binding hb op (hops op (by simp))) (fun o ho => hops o (by simp [ho]))

/-- … hence every later RTP packet with that SSRC is handed to `r` (if `r` accepts its payload type)
or dropped — never to anybody else. -/
theorem rtp_after_latch {st : Router} (h : WF st) {x r : Nat} (hb : ssrcOf st x = some r) (ops : List Op)
    (hops : ∀ op ∈ ops, ¬ rebinds x r op) (pt : Nat) :
    let st' := (run st ops).1
    (routeRtp st' x pt).2 = if accepts st' pt r then some r else none := by
  intro st'
  have hb' : ssrcOf st' x = some r := latch_sticks hb ops hops
  have hwf : WF st' := h.run ops
  by_cases ha : accepts st' pt r
  · simp only [ha, if_true]
    exact (route_rtp_spec hwf x pt r).2 (Or.inl ⟨hb', ha⟩)
  · simp only [ha, if_false]
    rw [route_rtp_none_iff hwf]
    rintro r' (⟨h1, h2⟩ | ⟨h1, _⟩)
    · rw [hb'] at h1; cases h1; exact ha h2
    · rw [hb'] at h1; cases h1

/-! ## 2. RTCP -/

theorem rtcp_psfb_app_const : Aiortc.Gen.RTCP_PSFB_APP = 15 := by decide

/-- SSRCs whose *receiver* an RTCP packet concerns: the sender SSRC of an SR, the sources of a BYE. -/
def reportedSources : Rtcp → List Nat
  | .sr ssrc _ => [ssrc]
  | .bye sources => sources
  | _ => []

/-- The SSRC list inside a REMB FCI as the code decodes it (`[]` if it is not a REMB). -/
def rembList (fci : Bytes) : List Nat :=
  match rembTargets fci with
  | .ok l => l
  | _ => []

/-- SSRCs whose *sender* an RTCP packet reports on: report blocks of SR / RR, `media_ssrc` of a
feedback packet, and the SSRC list inside a REMB (PSFB with fmt 15). -/
def reportedMedia : Rtcp → List Nat
  | .sr _ reports => reports
  | .rr _ reports => reports
  | .rtpfb _ _ media => [media]
  | .psfb fmt _ media fci => media :: (if fmt = 15 then rembList fci else [])
  | _ => []

theorem routeRtcp_eq (st : Router) (p : Rtcp) :
    routeRtcp st p = .ok (addAll .sender (senderOf st) (reportedMedia p)
                            (addAll .receiver (ssrcOf st) (reportedSources p) [])) := by
  cases p with
  | sr ssrc reports => rfl
  | rr ssrc reports => rfl
  | sdes chunks => rfl
  | bye sources => rfl
  | rtpfb fmt ssrc media => rfl
  | psfb fmt ssrc media fci =>
    obtain ⟨l, hl⟩ := rembTargets_ok fci
    by_cases hf : fmt = 15
    · subst hf
      simp [routeRtcp, rtcp_psfb_app_const, hl, reportedMedia, rembList, rtcpReceiverPart, reportedSources,
        addAll, addSenders, senderOf]
    · simp [routeRtcp, rtcp_psfb_app_const, hf, reportedMedia, rtcpReceiverPart, reportedSources,
        addAll, addSenders, senderOf]

/-- **RTCP routing.** `route_rtcp` never raises and returns a set containing exactly the receivers
registered for the SSRCs the packet is about (SR sender / BYE sources) and exactly the senders
registered for the SSRCs it reports on (report blocks / media_ssrc / REMB list) — nobody else. -/
theorem route_rtcp_spec (st : Router) (p : Rtcp) :
    ∃ l, routeRtcp st p = .ok l ∧ l.Nodup ∧
      (∀ r, Recipient.receiver r ∈ l ↔ ∃ x ∈ reportedSources p, ssrcOf st x = some r) ∧
      (∀ s, Recipient.sender s ∈ l ↔ ∃ x ∈ reportedMedia p, senderOf st x = some s) := by
  refine ⟨_, routeRtcp_eq st p, nodup_addAll _ _ _ (nodup_addAll _ _ _ List.nodup_nil), fun r => ?_, fun s => ?_⟩
  · simp only [mem_addAll, reduceCtorEq, and_false, exists_false, false_or, Recipient.receiver.injEq,
      List.not_mem_nil, or_false]
    constructor
    · rintro ⟨x, hx, v, hv, rfl⟩; exact ⟨x, hx, hv⟩
    · rintro ⟨x, hx, hv⟩; exact ⟨x, hx, r, hv, rfl⟩
  · simp only [mem_addAll, reduceCtorEq, and_false, exists_false, or_false, Recipient.sender.injEq,
      List.not_mem_nil]
    constructor
    · rintro ⟨x, hx, v, hv, rfl⟩; exact ⟨x, hx, hv⟩
    · rintro ⟨x, hx, hv⟩; exact ⟨x, hx, s, hv, rfl⟩

theorem route_rtcp_never_raises (st : Router) (p : Rtcp) : ∃ l, routeRtcp st p = .ok l :=
  ⟨_, routeRtcp_eq st p⟩

/-- RTCP is only ever routed to currently registered receivers. -/
theorem route_rtcp_registered {st : Router} (h : WF st) (p : Rtcp) (l : List Recipient) (r : Nat)
    (hl : routeRtcp st p = .ok l) (hr : Recipient.receiver r ∈ l) : r ∈ st.receivers := by
  obtain ⟨l', hl', _, hrec, _⟩ := route_rtcp_spec st p
  rw [hl] at hl'; cases hl'
  obtain ⟨x, _, hx⟩ := (hrec r).1 hr
  exact h.ssrcRecv r (dget_mem_dvals hx)

/-! ### the SSRC list inside a REMB, against the wire format -/

/-- A well-formed REMB FCI (`"REMB"`, count, 3 bitrate bytes, `count` big-endian SSRCs, optional
trailing bytes) is decoded to exactly its SSRC list … -/
theorem rembList_of_isRemb {fci : Bytes} {ssrcs : List Nat} (h : IsRemb fci ssrcs) : rembList fci = ssrcs := by
  obtain ⟨b, hb⟩ := unpackRembFci_of_isRemb h
  simp [rembList, rembTargets, hb]

/-- … and anything else (any byte string that is not a well-formed REMB FCI) contributes no SSRC. -/
theorem rembList_of_not_isRemb {fci : Bytes} (hb : IsBytes fci) (h : ¬ ∃ ssrcs, IsRemb fci ssrcs) :
    rembList fci = [] := by
  rcases unpackRembFci_no_crash fci with h1 | ⟨b, l, h1⟩
  · simp [rembList, rembTargets, h1]
  · exact absurd ⟨l, isRemb_of_unpackRembFci hb h1⟩ h

/-- **REMB routing.** A PSFB packet with fmt 15 whose FCI is a well-formed REMB carrying `ssrcs`
reaches exactly the senders registered for `media_ssrc` or for one of `ssrcs`, and no receiver. -/
theorem route_rtcp_remb (st : Router) (ssrc media : Nat) {fci : Bytes} {ssrcs : List Nat}
    (h : IsRemb fci ssrcs) :
    ∃ l, routeRtcp st (.psfb 15 ssrc media fci) = .ok l ∧
      (∀ s, Recipient.sender s ∈ l ↔ ∃ x ∈ media :: ssrcs, senderOf st x = some s) ∧
      (∀ r, Recipient.receiver r ∉ l) := by
  obtain ⟨l, hl, _, hrec, hsnd⟩ := route_rtcp_spec st (.psfb 15 ssrc media fci)
  refine ⟨l, hl, fun s => ?_, fun r hr => ?_⟩
  · rw [hsnd s]; simp only [reportedMedia, if_true, rembList_of_isRemb h]
  · obtain ⟨x, hx, _⟩ := (hrec r).1 hr
    simp [reportedSources] at hx

example : IsRemb [82, 69, 77, 66, 2, 0, 3, 232, 0, 0, 4, 210, 0, 0, 22, 46] [1234, 5678] :=
  ⟨0, 3, 232, [], by decide, by decide⟩

/-! ## 3. Once unregistered, nothing is routed to it again -/

/-- The operation registers receiver `r`. -/
def registersReceiver (r : Nat) : Op → Prop
  | .regReceiver r' _ _ _ => r' = r
  | _ => False

/-- The operation registers sender `s`. -/
def registersSender (s : Nat) : Op → Prop
  | .regSender s' _ => s' = s
  | _ => False

/-- The observable result of an operation hands something to receiver `r`. -/
def toReceiver (r : Nat) : Out → Prop
  | .rtp (some r') => r' = r
  | .rtcp (.ok l) => Recipient.receiver r ∈ l
  | _ => False

/-- The observable result of an operation hands something to sender `s`. -/
def toSender (s : Nat) : Out → Prop
  | .rtcp (.ok l) => Recipient.sender s ∈ l
  | _ => False

/-- `r` occurs in no table. -/
structure ReceiverAbsent (r : Nat) (st : Router) : Prop where
  recv : r ∉ st.receivers
  ssrc : r ∉ dvals st.ssrcTable
  mid : r ∉ dvals st.midTable
  pt : ∀ pt, r ∉ ptSet st.ptTable pt

theorem absent_after_unregister (st : Router) (r : Nat) : ReceiverAbsent r (unregisterReceiver st r) := by
  constructor
  · exact fun h => (mem_sdiscard.1 h).1 rfl
  · exact fun h => (mem_dvals_ddiscard.1 h).1 rfl
  · exact fun h => (mem_dvals_ddiscard.1 h).1 rfl
  · intro pt h
    change r ∈ ptSet (st.ptTable.map _) pt at h
    rw [ptSet_map_sdiscard] at h
    exact (mem_sdiscard.1 h).1 rfl

theorem absent_step {st : Router} {r : Nat} (ha : ReceiverAbsent r st) (op : Op) (hop : ¬ registersReceiver r op) :
    ReceiverAbsent r (step st op).1 ∧ ¬ toReceiver r (step st op).2 := by
  cases op with
  | regReceiver r' ssrcs pts mid =>
    have hne : r ≠ r' := fun e => hop e.symm
    refine ⟨⟨?_, ?_, ?_, ?_⟩, fun h => h⟩
    · intro h; rcases mem_sadd.1 h with h | h
      · exact hne h
      · exact ha.recv h
    · intro h; rcases mem_dvals_foldl_dset ssrcs _ h with h | h
      · exact hne h
      · exact ha.ssrc h
    · cases mid with
      | none => exact ha.mid
      | some m =>
        intro h; rcases mem_dvals_dset h with h | h
        · exact hne h
        · exact ha.mid h
    · intro pt h
      rcases (mem_ptSet_foldl_ptAdd r' pts _ pt r).1 h with h | h
      · exact hne h.1
      · exact ha.pt pt h
  | regSender s ssrc => exact ⟨⟨ha.recv, ha.ssrc, ha.mid, ha.pt⟩, fun h => h⟩
  | unregReceiver r' =>
    refine ⟨⟨?_, ?_, ?_, ?_⟩, fun h => h⟩
    · exact fun h => ha.recv (mem_sdiscard.1 h).2
    · exact fun h => ha.ssrc (mem_dvals_ddiscard.1 h).2
    · exact fun h => ha.mid (mem_dvals_ddiscard.1 h).2
    · intro pt h
      change r ∈ ptSet (st.ptTable.map _) pt at h
      rw [ptSet_map_sdiscard] at h
      exact ha.pt pt (mem_sdiscard.1 h).2
  | unregSender s => exact ⟨⟨ha.recv, ha.ssrc, ha.mid, ha.pt⟩, fun h => h⟩
  | rtp ssrc pt =>
    show ReceiverAbsent r (routeRtp st ssrc pt).1 ∧ ¬ toReceiver r (.rtp (routeRtp st ssrc pt).2)
    unfold routeRtp
    cases hs : dget ssrc st.ssrcTable with
    | some r0 =>
      have hr0 : r0 ≠ r := fun e => ha.ssrc (e ▸ dget_mem_dvals hs)
      simp only
      split
      · exact ⟨ha, hr0⟩
      · exact ⟨ha, fun h => h⟩
    | none =>
      simp only
      split
      · rename_i r1 hr1
        have hne : r1 ≠ r := by
          intro e; subst e; exact ha.pt pt (by rw [hr1]; simp)
        refine ⟨⟨ha.recv, ?_, ha.mid, ha.pt⟩, hne⟩
        intro h; rcases mem_dvals_dset h with h | h
        · exact hne h.symm
        · exact ha.ssrc h
      · exact ⟨ha, fun h => h⟩
  | rtcp p =>
    refine ⟨ha, ?_⟩
    show ¬ toReceiver r (.rtcp (routeRtcp st p))
    obtain ⟨l, hl, _, hrec, _⟩ := route_rtcp_spec st p
    rw [hl]
    intro h
    obtain ⟨x, _, hx⟩ := (hrec r).1 h
    exact ha.ssrc (dget_mem_dvals hx)

theorem absent_run {st : Router} {r : Nat} (ha : ReceiverAbsent r st) (ops : List Op)
    (hops : ∀ op ∈ ops, ¬ registersReceiver r op) :
    ReceiverAbsent r (run st ops).1 ∧ ∀ o ∈ (run st ops).2, ¬ toReceiver r o := by
  induction ops generalizing st with
  | nil => exact ⟨ha, by simp [run_nil]⟩
  | cons op ops ih =>
    rw [run_cons]
    obtain ⟨h1, h2⟩ := absent_step ha op (hops op (by simp))
    obtain ⟨h3, h4⟩ := ih h1 (fun o ho => hops o (by simp [ho]))
    refine ⟨h3, fun o ho => ?_⟩
    rcases List.mem_cons.1 ho with ho | ho
    · subst ho; exact h2
    · exact h4 o ho

/-- **Unregistered receivers are gone.** After `unregister_receiver(r)` — in *any* router state — no
RTP and no RTCP packet is handed to `r` by any later operation of any history that does not register
`r` again, and `r` occurs in no table at the end. -/
theorem unregistered_receiver_is_gone (st : Router) (r : Nat) (ops : List Op)
    (hops : ∀ op ∈ ops, ¬ registersReceiver r op) :
    (∀ o ∈ (run (unregisterReceiver st r) ops).2, ¬ toReceiver r o) ∧
    ReceiverAbsent r (run (unregisterReceiver st r) ops).1 :=
  let h := absent_run (absent_after_unregister st r) ops hops
  ⟨h.2, h.1⟩

theorem sender_absent_step {st : Router} {s : Nat} (ha : s ∉ dvals st.senders) (op : Op)
    (hop : ¬ registersSender s op) :
    s ∉ dvals (step st op).1.senders ∧ ¬ toSender s (step st op).2 := by
  cases op with
  | regReceiver r' ssrcs pts mid => exact ⟨ha, fun h => h⟩
  | regSender s' ssrc =>
    refine ⟨fun h => ?_, fun h => h⟩
    rcases mem_dvals_dset h with h | h
    · exact hop h.symm
    · exact ha h
  | unregReceiver r' => exact ⟨ha, fun h => h⟩
  | unregSender s' => exact ⟨fun h => ha (mem_dvals_ddiscard.1 h).2, fun h => h⟩
  | rtp ssrc pt =>
    refine ⟨?_, fun h => h⟩
    show s ∉ dvals (routeRtp st ssrc pt).1.senders
    rw [(route_rtp_state st ssrc pt).2.1]; exact ha
  | rtcp p =>
    refine ⟨ha, ?_⟩
    show ¬ toSender s (.rtcp (routeRtcp st p))
    obtain ⟨l, hl, _, _, hsnd⟩ := route_rtcp_spec st p
    rw [hl]
    intro h
    obtain ⟨x, _, hx⟩ := (hsnd s).1 h
    exact ha (dget_mem_dvals hx)

/-- **Unregistered senders are gone.** After `unregister_sender(s)` no RTCP packet is handed to `s` by
any later operation of any history that does not register `s` again. -/
theorem unregistered_sender_is_gone (st : Router) (s : Nat) (ops : List Op)
    (hops : ∀ op ∈ ops, ¬ registersSender s op) :
    ∀ o ∈ (run (unregisterSender st s) ops).2, ¬ toSender s o := by
  have h0 : s ∉ dvals (unregisterSender st s).senders := fun h => (mem_dvals_ddiscard.1 h).1 rfl
  generalize unregisterSender st s = st0 at h0
  induction ops generalizing st0 with
  | nil => simp [run_nil]
  | cons op ops ih =>
    rw [run_cons]
    obtain ⟨h1, h2⟩ := sender_absent_step h0 op (hops op (by simp))
    intro o ho
    rcases List.mem_cons.1 ho with ho | ho
    · subst ho; exact h2
    · exact ih (fun o ho => hops o (by simp [ho])) _ h1 o ho

/-! ## 4. The statement over whole histories -/

/-- For every history `pre` from a fresh router and every packet that follows it, the routing
decision is the one the property demands (1 and 2 instantiated at the reached state). -/
theorem history_spec (pre : List Op) :
    let st := (run Router.empty pre).1
    (∀ ssrc pt r, (step st (.rtp ssrc pt)).2 = .rtp (some r) ↔
        (ssrcOf st ssrc = some r ∧ accepts st pt r) ∨
        (ssrcOf st ssrc = none ∧ ∀ r', accepts st pt r' ↔ r' = r)) ∧
    (∀ p, ∃ l, (step st (.rtcp p)).2 = .rtcp (.ok l) ∧ l.Nodup ∧
        (∀ r, Recipient.receiver r ∈ l ↔ ∃ x ∈ reportedSources p, ssrcOf st x = some r) ∧
        (∀ s, Recipient.sender s ∈ l ↔ ∃ x ∈ reportedMedia p, senderOf st x = some s)) := by
  intro st
  refine ⟨fun ssrc pt r => ?_, fun p => ?_⟩
  · rw [← route_rtp_spec (reachable_wf pre) ssrc pt r]
    show Out.rtp (routeRtp st ssrc pt).2 = Out.rtp (some r) ↔ _
    constructor
    · intro h; injection h
    · intro h; rw [h]
  · obtain ⟨l, hl, h2⟩ := route_rtcp_spec st p
    exact ⟨l, by show Out.rtcp (routeRtcp st p) = _; rw [hl], h2⟩

/-! ## 5. No limit on the number of streams

The property quantifies over all histories, so there is no number of SSRCs after which the router may stop remembering new ones:
whatever is already in the tables (`st` is any well-formed state, e.g. one reached by an arbitrarily long history) and however many
new streams show up (`xs` is a list of any length), each of them latches, the table holds every one of them, and each of them
sticks. (Round 3: a cap `len(ssrc_table) < 64` on latching was seeded; these are the statements such a cap contradicts.) -/

/-- The first packet of each of the streams `xs` (any number of them), all with payload type `pt`. -/
def firstPackets (xs : List Nat) (pt : Nat) : List Op := xs.map fun x => Op.rtp x pt

/-- **Every one of any number of new streams latches.** If `r` is the only receiver accepting `pt` and none of the SSRCs `xs`
belongs to somebody else, the first packets of all these streams are handed to `r`, afterwards every one of these SSRCs is bound
to `r`, and nothing else changed (earlier bindings, payload types, receivers, senders). -/
theorem many_streams_all_latch {st : Router} (h : WF st) (r pt : Nat)
    (hacc : ∀ r', accepts st pt r' ↔ r' = r) (xs : List Nat)
    (hx : ∀ x ∈ xs, ssrcOf st x = none ∨ ssrcOf st x = some r) :
    let res := run st (firstPackets xs pt)
    res.2 = xs.map (fun _ => Out.rtp (some r)) ∧
    (∀ x ∈ xs, ssrcOf res.1 x = some r) ∧
    (∀ y, ssrcOf st y ≠ none → ssrcOf res.1 y = ssrcOf st y) ∧
    res.1.ptTable = st.ptTable ∧ res.1.receivers = st.receivers ∧ res.1.senders = st.senders := by
  induction xs generalizing st with
  | nil => exact ⟨rfl, by simp, fun _ _ => rfl, rfl, rfl, rfl⟩
  | cons x xs ih =>
    have hres : (routeRtp st x pt).2 = some r := by
      rw [route_rtp_spec h]
      rcases hx x (by simp) with hn | hs
      · exact Or.inr ⟨hn, hacc⟩
      · exact Or.inl ⟨hs, (hacc r).2 rfl⟩
    obtain ⟨hrecv, hsnd, _, hpt, hss⟩ := route_rtp_state st x pt
    have hacc1 : ∀ r', accepts (routeRtp st x pt).1 pt r' ↔ r' = r := by
      intro r'; unfold accepts; rw [hpt]; exact hacc r'
    have hx1 : ∀ y ∈ xs, ssrcOf (routeRtp st x pt).1 y = none ∨ ssrcOf (routeRtp st x pt).1 y = some r := by
      intro y hy
      rw [hss y, hres]
      split
      · exact Or.inr rfl
      · exact hx y (by simp [hy])
    have hbx : ssrcOf (routeRtp st x pt).1 x = some r := route_rtp_binds st x pt r hres
    obtain ⟨io, ib, ik, ip, ir, is⟩ := ih (h.routeRtp x pt) hacc1 hx1
    have hstep : step st (.rtp x pt) = ((routeRtp st x pt).1, .rtp (routeRtp st x pt).2) := rfl
    simp only [firstPackets, List.map_cons, run_cons, hstep] at io ib ik ip ir is ⊢
    refine ⟨by rw [hres, io], ?_, ?_, by rw [ip, hpt], by rw [ir, hrecv], by rw [is, hsnd]⟩
    · intro y hy
      rcases List.mem_cons.1 hy with rfl | hy
      · rw [ik y (by rw [hbx]; simp), hbx]
      · exact ib y hy
    · intro y hy
      have h1 : ssrcOf (routeRtp st x pt).1 y = ssrcOf st y := by
        rw [hss y]
        split
        · rename_i hc; rw [hc.1] at hy; exact absurd hc.2 hy
        · rfl
      rw [ik y (by rw [h1]; exact hy), h1]

/-- **… and every one of them sticks.** After the first packets of any number of streams, through every later history that
neither unregisters `r` nor registers one of these SSRCs explicitly (other receivers for the same payload type may come and go):
each stream is still bound to `r`, its RTP goes to `r` (dropped only if `r` itself no longer accepts the payload type, never to
anybody else), and its sender reports and BYEs reach `r`. -/
theorem many_streams_stick {st : Router} (h : WF st) (r pt : Nat)
    (hacc : ∀ r', accepts st pt r' ↔ r' = r) (xs : List Nat)
    (hx : ∀ x ∈ xs, ssrcOf st x = none ∨ ssrcOf st x = some r)
    (ops : List Op) (hops : ∀ x ∈ xs, ∀ op ∈ ops, ¬ rebinds x r op) :
    let st' := (run st (firstPackets xs pt ++ ops)).1
    ∀ x ∈ xs,
      ssrcOf st' x = some r ∧
      (∀ pt', (routeRtp st' x pt').2 = if accepts st' pt' r then some r else none) ∧
      (∀ reports, ∃ l, routeRtcp st' (.sr x reports) = .ok l ∧ Recipient.receiver r ∈ l) ∧
      (∀ others, ∃ l, routeRtcp st' (.bye (x :: others)) = .ok l ∧ Recipient.receiver r ∈ l) := by
  intro st' x hxm
  have hst' : st' = (run (run st (firstPackets xs pt)).1 ops).1 := by
    show (run st (firstPackets xs pt ++ ops)).1 = _
    rw [run_append]
  have hwf1 : WF (run st (firstPackets xs pt)).1 := h.run _
  have hb1 : ssrcOf (run st (firstPackets xs pt)).1 x = some r :=
    (many_streams_all_latch h r pt hacc xs hx).2.1 x hxm
  have hb : ssrcOf st' x = some r := by rw [hst']; exact latch_sticks hb1 ops (hops x hxm)
  refine ⟨hb, fun pt' => ?_, fun reports => ?_, fun others => ?_⟩
  · rw [hst']; exact rtp_after_latch hwf1 hb1 ops (hops x hxm) pt'
  · obtain ⟨l, hl, _, hrec, _⟩ := route_rtcp_spec st' (.sr x reports)
    exact ⟨l, hl, (hrec r).2 ⟨x, by simp [reportedSources], hb⟩⟩
  · obtain ⟨l, hl, _, hrec, _⟩ := route_rtcp_spec st' (.bye (x :: others))
    exact ⟨l, hl, (hrec r).2 ⟨x, by simp [reportedSources], hb⟩⟩

/-- **The SSRC table has no maximum size**: after `n` distinct new streams it has at least `n` entries, for every `n`. -/
theorem ssrc_table_unbounded {st : Router} (h : WF st) (r pt : Nat)
    (hacc : ∀ r', accepts st pt r' ↔ r' = r) (xs : List Nat) (hn : xs.Nodup)
    (hx : ∀ x ∈ xs, ssrcOf st x = none ∨ ssrcOf st x = some r) :
    xs.length ≤ (run st (firstPackets xs pt)).1.ssrcTable.length := by
  have hall := (many_streams_all_latch h r pt hacc xs hx).2.1
  have hsub : xs ⊆ dkeys (run st (firstPackets xs pt)).1.ssrcTable := fun x hxm => mem_dkeys_of_dget (hall x hxm)
  have := length_le_of_nodup_subset hn hsub
  simpa [dkeys] using this

/-- `register_sender(s, x)` for every pair `(s, x)` of a list (any number of senders / SSRCs). -/
def registerSenders (ps : List (Nat × Nat)) : List Op := ps.map fun p => Op.regSender p.1 p.2

/-- registering senders on other SSRCs does not change who owns SSRC `x` -/
theorem senderOf_registerSenders_other (st : Router) (ps : List (Nat × Nat)) (x : Nat) (hx : x ∉ ps.map Prod.snd) :
    senderOf (run st (registerSenders ps)).1 x = senderOf st x := by
  induction ps generalizing st with
  | nil => rfl
  | cons p ps ih =>
    simp only [List.map_cons, List.mem_cons, not_or] at hx
    have hstep : step st (.regSender p.1 p.2) = (registerSender st p.1 p.2, .unit) := rfl
    simp only [registerSenders, List.map_cons, run_cons, hstep]
    have := ih (registerSender st p.1 p.2) hx.2
    simp only [registerSenders] at this
    rw [this, (register_sender_spec st p.1 p.2).1 x, if_neg hx.1]

/-- **Any number of senders.** After registering any number of senders on distinct SSRCs every one of them owns its SSRC, feedback
for each SSRC reaches its sender, and a receiver report with a report block for every one of them reaches all of them. -/
theorem many_senders_all_reachable (st : Router) (ps : List (Nat × Nat)) (hn : (ps.map Prod.snd).Nodup) :
    let st' := (run st (registerSenders ps)).1
    (∀ p ∈ ps, senderOf st' p.2 = some p.1) ∧
    (∀ p ∈ ps, ∀ ssrc, ∃ l, routeRtcp st' (.rtpfb 1 ssrc p.2) = .ok l ∧ Recipient.sender p.1 ∈ l) ∧
    (∀ ssrc, ∃ l, routeRtcp st' (.rr ssrc (ps.map Prod.snd)) = .ok l ∧ ∀ p ∈ ps, Recipient.sender p.1 ∈ l) := by
  intro st'
  have hall : ∀ p ∈ ps, senderOf st' p.2 = some p.1 := by
    show ∀ p ∈ ps, senderOf (run st (registerSenders ps)).1 p.2 = some p.1
    clear st'
    induction ps generalizing st with
    | nil => intro p hp; cases hp
    | cons q ps ih =>
      have hn' : q.2 ∉ ps.map Prod.snd ∧ (ps.map Prod.snd).Nodup := List.nodup_cons.1 hn
      have hstep : step st (.regSender q.1 q.2) = (registerSender st q.1 q.2, .unit) := rfl
      intro p hp
      simp only [registerSenders, List.map_cons, run_cons, hstep]
      rcases List.mem_cons.1 hp with rfl | hp
      · have := senderOf_registerSenders_other (registerSender st p.1 p.2) ps p.2 hn'.1
        simp only [registerSenders] at this
        rw [this, (register_sender_spec st p.1 p.2).1 p.2, if_pos rfl]
      · have := ih (registerSender st q.1 q.2) hn'.2 p hp
        simpa only [registerSenders] using this
  refine ⟨hall, fun p hp ssrc => ?_, fun ssrc => ?_⟩
  · obtain ⟨l, hl, _, _, hsnd⟩ := route_rtcp_spec st' (.rtpfb 1 ssrc p.2)
    exact ⟨l, hl, (hsnd p.1).2 ⟨p.2, by simp [reportedMedia], hall p hp⟩⟩
  · obtain ⟨l, hl, _, _, hsnd⟩ := route_rtcp_spec st' (.rr ssrc (ps.map Prod.snd))
    exact ⟨l, hl, fun p hp => (hsnd p.1).2 ⟨p.2, by simp only [reportedMedia]; exact List.mem_map_of_mem hp, hall p hp⟩⟩

/-! ## Non-vacuity -/

/-- latch → stick → unregister → gone, with two receivers sharing payload type 96 -/
example :
    (run Router.empty
      [.regReceiver 0 [] [96] none, .rtp 7 96, .regReceiver 1 [] [96] (some "a"), .rtp 7 96, .rtp 8 96,
       .unregReceiver 0, .rtp 7 96, .rtp 8 96]).2
    = [.unit, .rtp (some 0), .unit, .rtp (some 0), .rtp none, .unit, .rtp (some 1), .rtp (some 1)] := by decide

/-- a REMB reaches the senders of the SSRCs in its FCI (media_ssrc is 0) plus the `media_ssrc` sender -/
example :
    (run Router.empty
      [.regSender 0 1234, .regSender 1 5678, .regSender 2 0,
       .rtcp (.psfb 15 9 0 [82, 69, 77, 66, 2, 0, 3, 232, 0, 0, 4, 210, 0, 0, 22, 46])]).2.getLast?
    = some (.rtcp (.ok [.sender 2, .sender 0, .sender 1])) := by decide

/-- a REMB whose count exceeds its data is ignored (patched behaviour), media_ssrc still routed -/
example :
    routeRtcp (registerSender Router.empty 0 0) (.psfb 15 1 0 [82, 69, 77, 66, 1, 0, 3, 232])
    = .ok [.sender 0] := by decide

/-- hypotheses of `latch_sticks` / `unregistered_*_is_gone` are satisfiable by non-trivial histories -/
example : ¬ rebinds 7 0 (.regReceiver 1 [8] [96] none) ∧ ¬ rebinds 7 0 (.unregReceiver 1) ∧
    ¬ registersReceiver 0 (.regReceiver 1 [7] [96] none) ∧ ¬ registersSender 0 (.regSender 1 5) := by
  simp [rebinds, registersReceiver, registersSender]

example : WF (registerReceiver Router.empty 3 [1, 2] [96, 97] (some "m")) := WF.empty.registerReceiver ..

/-- hypotheses of `many_streams_all_latch` / `many_streams_stick` / `ssrc_table_unbounded` are satisfiable for as many streams as
one likes: receiver 0 (SSRC 1111, payload type 96), streams 10000 … 10000+n-1, later a second receiver for payload type 96 -/
example (n : Nat) :
    let st := registerReceiver Router.empty 0 [1111] [96] none
    WF st ∧ (∀ r', accepts st 96 r' ↔ r' = 0) ∧ (List.range' 10000 n).Nodup ∧
    (∀ x ∈ List.range' 10000 n, ssrcOf st x = none ∨ ssrcOf st x = some 0) ∧
    ∀ x ∈ List.range' 10000 n, ∀ op ∈ [Op.regReceiver 1 [2222] [96] none, .rtp 5 96, .unregReceiver 1], ¬ rebinds x 0 op := by
  refine ⟨WF.empty.registerReceiver .., ?_, List.nodup_range', ?_, ?_⟩
  · intro r'; simp [accepts, registerReceiver, Router.empty, ptAdd, ptSet, dget, sadd]
  · intro x hx
    left
    have : x ≠ 1111 := by have := List.mem_range'_1.1 hx; omega
    simp [ssrcOf, registerReceiver, Router.empty, dset, dget, Ne.symm this]
  · intro x hx op hop
    have : x ≠ 2222 := by have := List.mem_range'_1.1 hx; omega
    simp at hop
    rcases hop with rfl | rfl | rfl <;> simp [rebinds, this]

/-- 70 unknown streams on one receiver, then a second receiver for the payload type: the 70th stream's next packet and its sender
report still go to receiver 0; a 71st, new stream is dropped as ambiguous -/
example :
    (run Router.empty ([.regReceiver 0 [] [96] none] ++ firstPackets (List.range' 10000 70) 96 ++
       [.regReceiver 1 [] [96] none, .rtp 10069 96, .rtcp (.sr 10069 []), .rtp 20000 96])).2.drop 72
    = [.rtp (some 0), .rtcp (.ok [.receiver 0]), .rtp none] := by decide

/-- the side condition of `many_senders_all_reachable` is satisfiable for any number of senders (7 sender objects, `n` SSRCs) -/
example (n : Nat) : (((List.range' 5000 n).map fun x => (x % 7, x)).map Prod.snd).Nodup := by
  have : ((List.range' 5000 n).map fun x => (x % 7, x)).map Prod.snd = List.range' 5000 n := by
    simp [List.map_map, Function.comp_def]
  rw [this]; exact List.nodup_range'

end Aiortc.Props.C12
