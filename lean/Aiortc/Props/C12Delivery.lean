import Aiortc.Props.C12
import Aiortc.Model.RouterDelivery
/-!
# C12 at transport level — the delivery loops of `RTCDtlsTransport`

Model: `Aiortc.Model.RouterDelivery` (`_handle_rtcp_data` / `_handle_rtp_data` after parsing): a compound RTCP
datagram is a *list* of packets, every delivery is an `await` during which the handler of the endpoint — or any
other task — may register / unregister receivers and senders (`Script`s, an input of the model), and the set
returned by `route_rtcp` is walked in an arbitrary order (`order`, an input of the model).

"Once a receiver or sender has been unregistered nothing is routed to it again, for any interleaving of
registrations, unregistrations and packets" therefore also has to hold for table changes that happen *between two
packets of one datagram*: packet `k` has to be routed against the tables as they are after everything that happened
while packets `0..k-1` were delivered (`compound_delivery_uses_current_tables`), not against a snapshot taken when
the datagram arrived.

Granularity: the recipient set of ONE packet is computed once (`route_rtcp` returns a set, then the loop awaits each
member); a co-recipient of the same packet that is unregistered by the handler of another co-recipient still gets
that packet — the routing decision predates the unregistration.  From the next packet on it gets nothing.
-/
namespace Aiortc.Props.C12
open Aiortc Aiortc.Model.Router

variable {S : List Script} {order : List Recipient → List Recipient}

/-! ## 0. Shape of the loop -/

/-- `route_rtcp` never raises, hence one iteration of the loop always routes on the current tables and delivers. -/
theorem rtcpPacket_ok (S : List Script) (order : List Recipient → List Recipient) (ts : TState) (p : Rtcp) :
    ∃ l, routeRtcp ts.router p = .ok l ∧
      rtcpPacket S order ts p = ((order l).foldl (deliver S) ts, .ok (order l)) := by
  obtain ⟨l, hl⟩ := route_rtcp_never_raises ts.router p
  exact ⟨l, hl, by simp only [rtcpPacket, hl]⟩

theorem handleRtcpData_nil (ts : TState) : handleRtcpData S order ts [] = (ts, []) := rfl

theorem handleRtcpData_cons (ts : TState) (p : Rtcp) (ps : List Rtcp) :
    handleRtcpData S order ts (p :: ps) =
      ((handleRtcpData S order (rtcpPacket S order ts p).1 ps).1,
       (rtcpPacket S order ts p).2 :: (handleRtcpData S order (rtcpPacket S order ts p).1 ps).2) := by
  obtain ⟨l, _, h⟩ := rtcpPacket_ok S order ts p
  simp only [handleRtcpData, h]

theorem handleRtcpData_append (ts : TState) (a b : List Rtcp) :
    handleRtcpData S order ts (a ++ b) =
      ((handleRtcpData S order (handleRtcpData S order ts a).1 b).1,
       (handleRtcpData S order ts a).2 ++ (handleRtcpData S order (handleRtcpData S order ts a).1 b).2) := by
  induction a generalizing ts with
  | nil => simp [handleRtcpData_nil]
  | cons p ps ih => simp only [List.cons_append, handleRtcpData_cons, ih]

/-- Every packet of the datagram is processed (no exception escapes the loop): one output per packet. -/
theorem handleRtcpData_length (ts : TState) (pkts : List Rtcp) :
    (handleRtcpData S order ts pkts).2.length = pkts.length := by
  induction pkts generalizing ts with
  | nil => rfl
  | cons p ps ih => simp [handleRtcpData_cons, ih]

/-! ## 1. Packet `k` of a compound datagram is routed on the tables as they are when its turn comes -/

/-- **Compound datagrams use the current tables.**  For a datagram `pre ++ p :: post`, with arbitrary table
changes happening during every delivery (`S`) and any set iteration order: the deliveries made for packet `p` are
exactly the result of `route_rtcp(p)` evaluated in the state reached after `pre` has been processed, i.e. after
all table changes that preceded `p` — never a decision taken earlier. -/
theorem compound_delivery_uses_current_tables (S : List Script) (order : List Recipient → List Recipient)
    (ts : TState) (pre : List Rtcp) (p : Rtcp) (post : List Rtcp) :
    let tsk := (handleRtcpData S order ts pre).1
    ∃ l, routeRtcp tsk.router p = .ok l ∧
      (handleRtcpData S order ts (pre ++ p :: post)).2[pre.length]? = some (.ok (order l)) := by
  intro tsk
  obtain ⟨l, hl, h⟩ := rtcpPacket_ok S order tsk p
  refine ⟨l, hl, ?_⟩
  rw [handleRtcpData_append, handleRtcpData_cons]
  show ((handleRtcpData S order ts pre).2 ++ _)[pre.length]? = _
  rw [List.getElem?_append_right (by rw [handleRtcpData_length]; exact Nat.le_refl _)]
  simp only [handleRtcpData_length, Nat.sub_self, List.getElem?_cons_zero]
  show some (rtcpPacket S order tsk p).2 = _
  rw [h]

/-! ### well-formedness is preserved by everything that can happen during a delivery -/

theorem wf_applyTable {st : Router} (h : WF st) (t : TableOp) : WF (applyTable st t) := h.step t.toOp

theorem wf_foldl_applyTable {st : Router} (h : WF st) (l : List TableOp) : WF (l.foldl applyTable st) := by
  induction l generalizing st with
  | nil => exact h
  | cons t l ih => exact ih (wf_applyTable h t)

theorem wf_deliver {ts : TState} (h : WF ts.router) (who : Recipient) : WF (deliver S ts who).router :=
  wf_foldl_applyTable h _

theorem wf_deliverAll {ts : TState} (h : WF ts.router) (l : List Recipient) :
    WF (l.foldl (deliver S) ts).router := by
  induction l generalizing ts with
  | nil => exact h
  | cons x l ih => exact ih (wf_deliver h x)

theorem wf_rtcpPacket {ts : TState} (h : WF ts.router) (p : Rtcp) : WF (rtcpPacket S order ts p).1.router := by
  obtain ⟨l, _, hp⟩ := rtcpPacket_ok S order ts p
  rw [hp]; exact wf_deliverAll h _

theorem wf_handleRtcpData {ts : TState} (h : WF ts.router) (pkts : List Rtcp) :
    WF (handleRtcpData S order ts pkts).1.router := by
  induction pkts generalizing ts with
  | nil => exact h
  | cons p ps ih => rw [handleRtcpData_cons]; exact ih (wf_rtcpPacket h p)

theorem wf_handleRtpData {ts : TState} (h : WF ts.router) (ssrc pt : Nat) :
    WF (handleRtpData S ts ssrc pt).1.router := by
  have hw := h.routeRtp ssrc pt
  unfold handleRtpData
  rcases hr : routeRtp ts.router ssrc pt with ⟨st', _ | r⟩
  · rw [hr] at hw; exact hw
  · rw [hr] at hw; exact wf_deliver (ts := { ts with router := st' }) hw _

theorem wf_tstep {ts : TState} (h : WF ts.router) (op : TOp) : WF (tstep S order ts op).1.router := by
  cases op with
  | table t => exact wf_applyTable h t
  | rtpData ssrc pt => exact wf_handleRtpData h ssrc pt
  | rtcpData pkts => exact wf_handleRtcpData h pkts

theorem trun_nil (ts : TState) : trun S order ts [] = (ts, []) := rfl

theorem trun_cons (ts : TState) (op : TOp) (ops : List TOp) :
    trun S order ts (op :: ops) =
      ((trun S order (tstep S order ts op).1 ops).1,
       (tstep S order ts op).2 :: (trun S order (tstep S order ts op).1 ops).2) := rfl

/-- Every transport history from a fresh transport, with any handler behaviour, keeps the router well formed. -/
theorem wf_trun {ts : TState} (h : WF ts.router) (ops : List TOp) : WF (trun S order ts ops).1.router := by
  induction ops generalizing ts with
  | nil => exact h
  | cons op ops ih => rw [trun_cons]; exact ih (wf_tstep h op)

/-- **Deliveries of packet `k` go exactly to the endpoints registered when its turn comes.**  In the state `tsk`
reached after the packets before it (including every table change made during their delivery), the deliveries
for `p` are: the receivers registered *in `tsk`* for the SSRCs `p` is about, the senders registered *in `tsk`* for
the SSRCs it reports on — all of them currently registered, nobody else, nobody twice. -/
theorem compound_delivery_only_to_registered (S : List Script) {order : List Recipient → List Recipient}
    (hord : ∀ l, (order l).Perm l) {ts : TState} (hwf : WF ts.router) (pre : List Rtcp) (p : Rtcp)
    (post : List Rtcp) :
    let tsk := (handleRtcpData S order ts pre).1
    ∃ l, (handleRtcpData S order ts (pre ++ p :: post)).2[pre.length]? = some (.ok l) ∧ l.Nodup ∧
      (∀ r, Recipient.receiver r ∈ l ↔ ∃ x ∈ reportedSources p, ssrcOf tsk.router x = some r) ∧
      (∀ s, Recipient.sender s ∈ l ↔ ∃ x ∈ reportedMedia p, senderOf tsk.router x = some s) ∧
      (∀ r, Recipient.receiver r ∈ l → r ∈ tsk.router.receivers) ∧
      (∀ s, Recipient.sender s ∈ l → s ∈ dvals tsk.router.senders) := by
  intro tsk
  obtain ⟨l, hl, hget⟩ := compound_delivery_uses_current_tables S order ts pre p post
  obtain ⟨l', hl', hnd, hrec, hsnd⟩ := route_rtcp_spec tsk.router p
  have hwfk : WF tsk.router := wf_handleRtcpData hwf pre
  have hl2 : routeRtcp tsk.router p = .ok l := hl
  rw [hl2] at hl'; cases hl'
  have hmem : ∀ x, x ∈ order l ↔ x ∈ l := fun x => (hord l).mem_iff
  refine ⟨order l, hget, (hord l).nodup_iff.2 hnd, fun r => ?_, fun s => ?_, fun r hr => ?_, fun s hs => ?_⟩
  · rw [hmem]; exact hrec r
  · rw [hmem]; exact hsnd s
  · obtain ⟨x, _, hx⟩ := (hrec r).1 ((hmem _).1 hr)
    exact hwfk.ssrcRecv r (dget_mem_dvals hx)
  · obtain ⟨x, _, hx⟩ := (hsnd s).1 ((hmem _).1 hs)
    exact dget_mem_dvals hx

/-! ## 2. Once unregistered — also by a handler, also in the middle of a datagram — nothing is handed to it again -/

/-- No handler behaviour registers receiver `r`. -/
def ScriptsKeepReceiverOut (r : Nat) (S : List Script) : Prop :=
  ∀ s ∈ S, ∀ t ∈ s.ops, ¬ registersReceiver r t.toOp

/-- No handler behaviour registers sender `s`. -/
def ScriptsKeepSenderOut (s : Nat) (S : List Script) : Prop :=
  ∀ sc ∈ S, ∀ t ∈ sc.ops, ¬ registersSender s t.toOp

theorem mem_fire {S : List Script} {who : Recipient} {n : Nat} {t : TableOp} (h : t ∈ fire S who n) :
    ∃ s ∈ S, t ∈ s.ops := by
  unfold fire at h
  obtain ⟨s, hs, ht⟩ := List.mem_flatMap.1 h
  exact ⟨s, (List.mem_filter.1 hs).1, ht⟩

theorem absent_foldl_applyTable {st : Router} {r : Nat} (ha : ReceiverAbsent r st) (l : List TableOp)
    (hl : ∀ t ∈ l, ¬ registersReceiver r t.toOp) : ReceiverAbsent r (l.foldl applyTable st) := by
  induction l generalizing st with
  | nil => exact ha
  | cons t l ih =>
    exact ih (absent_step ha t.toOp (hl t (by simp))).1 (fun t' ht' => hl t' (by simp [ht']))

theorem absent_deliver {ts : TState} {r : Nat} (ha : ReceiverAbsent r ts.router) (hS : ScriptsKeepReceiverOut r S)
    (who : Recipient) : ReceiverAbsent r (deliver S ts who).router :=
  absent_foldl_applyTable ha _ (fun t ht => by obtain ⟨s, hs, hts⟩ := mem_fire ht; exact hS s hs t hts)

theorem absent_deliverAll {ts : TState} {r : Nat} (ha : ReceiverAbsent r ts.router)
    (hS : ScriptsKeepReceiverOut r S) (l : List Recipient) : ReceiverAbsent r (l.foldl (deliver S) ts).router := by
  induction l generalizing ts with
  | nil => exact ha
  | cons x l ih => exact ih (absent_deliver ha hS x)

theorem absent_rtcpPacket (hord : ∀ l, (order l).Perm l) {ts : TState} {r : Nat}
    (ha : ReceiverAbsent r ts.router) (hS : ScriptsKeepReceiverOut r S) (p : Rtcp) :
    ReceiverAbsent r (rtcpPacket S order ts p).1.router ∧
      ∀ l, (rtcpPacket S order ts p).2 = .ok l → Recipient.receiver r ∉ l := by
  obtain ⟨l, hl, hp⟩ := rtcpPacket_ok S order ts p
  rw [hp]
  refine ⟨absent_deliverAll ha hS _, fun l' hl' hm => ?_⟩
  cases hl'
  have hn := (absent_step ha (.rtcp p) (fun h => h)).2
  have : (step ts.router (.rtcp p)).2 = .rtcp (.ok l) := by show Out.rtcp (routeRtcp ts.router p) = _; rw [hl]
  rw [this] at hn
  exact hn ((hord l).mem_iff.1 hm)

theorem absent_handleRtcpData (hord : ∀ l, (order l).Perm l) {ts : TState} {r : Nat}
    (ha : ReceiverAbsent r ts.router) (hS : ScriptsKeepReceiverOut r S) (pkts : List Rtcp) :
    ReceiverAbsent r (handleRtcpData S order ts pkts).1.router ∧
      ∀ o ∈ (handleRtcpData S order ts pkts).2, ∀ l, o = .ok l → Recipient.receiver r ∉ l := by
  induction pkts generalizing ts with
  | nil => exact ⟨ha, by simp [handleRtcpData_nil]⟩
  | cons p ps ih =>
    rw [handleRtcpData_cons]
    obtain ⟨h1, h2⟩ := absent_rtcpPacket hord ha hS p
    obtain ⟨h3, h4⟩ := ih h1
    refine ⟨h3, fun o ho l hl => ?_⟩
    rcases List.mem_cons.1 ho with ho | ho
    · subst ho; exact h2 l hl
    · exact h4 o ho l hl

/-- **A receiver unregistered in the middle of a compound datagram gets none of the packets behind.**  If `r`
occurs in no table after the packets `pre` have been delivered (say its own handler called `stop()` on the BYE, or
another task did while a handler was awaiting), and nobody registers it again, then no packet of `post` — the rest
of the *same* datagram — is handed to `r`. -/
theorem unregistered_mid_datagram_receiver_is_gone (S : List Script) {order : List Recipient → List Recipient}
    (hord : ∀ l, (order l).Perm l) (ts : TState) (pre post : List Rtcp) (r : Nat)
    (ha : ReceiverAbsent r (handleRtcpData S order ts pre).1.router) (hS : ScriptsKeepReceiverOut r S) :
    ∀ o ∈ (handleRtcpData S order ts (pre ++ post)).2.drop pre.length, ∀ l, o = .ok l →
      Recipient.receiver r ∉ l := by
  rw [handleRtcpData_append]
  show ∀ o ∈ ((handleRtcpData S order ts pre).2 ++ _).drop pre.length, _
  rw [List.drop_append_of_le_length (by rw [handleRtcpData_length]; exact Nat.le_refl _)]
  rw [List.drop_of_length_le (by rw [handleRtcpData_length]; exact Nat.le_refl _), List.nil_append]
  exact (absent_handleRtcpData hord ha hS post).2

theorem sender_absent_foldl_applyTable {st : Router} {s : Nat} (ha : s ∉ dvals st.senders) (l : List TableOp)
    (hl : ∀ t ∈ l, ¬ registersSender s t.toOp) : s ∉ dvals (l.foldl applyTable st).senders := by
  induction l generalizing st with
  | nil => exact ha
  | cons t l ih =>
    exact ih (sender_absent_step ha t.toOp (hl t (by simp))).1 (fun t' ht' => hl t' (by simp [ht']))

theorem sender_absent_deliver {ts : TState} {s : Nat} (ha : s ∉ dvals ts.router.senders)
    (hS : ScriptsKeepSenderOut s S) (who : Recipient) : s ∉ dvals (deliver S ts who).router.senders :=
  sender_absent_foldl_applyTable ha _ (fun t ht => by obtain ⟨sc, hs, hts⟩ := mem_fire ht; exact hS sc hs t hts)

theorem sender_absent_deliverAll {ts : TState} {s : Nat} (ha : s ∉ dvals ts.router.senders)
    (hS : ScriptsKeepSenderOut s S) (l : List Recipient) : s ∉ dvals (l.foldl (deliver S) ts).router.senders := by
  induction l generalizing ts with
  | nil => exact ha
  | cons x l ih => exact ih (sender_absent_deliver ha hS x)

theorem sender_absent_rtcpPacket (hord : ∀ l, (order l).Perm l) {ts : TState} {s : Nat}
    (ha : s ∉ dvals ts.router.senders) (hS : ScriptsKeepSenderOut s S) (p : Rtcp) :
    s ∉ dvals (rtcpPacket S order ts p).1.router.senders ∧
      ∀ l, (rtcpPacket S order ts p).2 = .ok l → Recipient.sender s ∉ l := by
  obtain ⟨l, hl, hp⟩ := rtcpPacket_ok S order ts p
  rw [hp]
  refine ⟨sender_absent_deliverAll ha hS _, fun l' hl' hm => ?_⟩
  cases hl'
  have hn := (sender_absent_step ha (.rtcp p) (fun h => h)).2
  have : (step ts.router (.rtcp p)).2 = .rtcp (.ok l) := by show Out.rtcp (routeRtcp ts.router p) = _; rw [hl]
  rw [this] at hn
  exact hn ((hord l).mem_iff.1 hm)

theorem sender_absent_handleRtcpData (hord : ∀ l, (order l).Perm l) {ts : TState} {s : Nat}
    (ha : s ∉ dvals ts.router.senders) (hS : ScriptsKeepSenderOut s S) (pkts : List Rtcp) :
    s ∉ dvals (handleRtcpData S order ts pkts).1.router.senders ∧
      ∀ o ∈ (handleRtcpData S order ts pkts).2, ∀ l, o = .ok l → Recipient.sender s ∉ l := by
  induction pkts generalizing ts with
  | nil => exact ⟨ha, by simp [handleRtcpData_nil]⟩
  | cons p ps ih =>
    rw [handleRtcpData_cons]
    obtain ⟨h1, h2⟩ := sender_absent_rtcpPacket hord ha hS p
    obtain ⟨h3, h4⟩ := ih h1
    refine ⟨h3, fun o ho l hl => ?_⟩
    rcases List.mem_cons.1 ho with ho | ho
    · subst ho; exact h2 l hl
    · exact h4 o ho l hl

/-- **A sender unregistered in the middle of a compound datagram gets none of the packets behind** (another task
stops the sender while its handler awaits on the RR: the NACK and PLI behind it are not handed to it). -/
theorem unregistered_mid_datagram_sender_is_gone (S : List Script) {order : List Recipient → List Recipient}
    (hord : ∀ l, (order l).Perm l) (ts : TState) (pre post : List Rtcp) (s : Nat)
    (ha : s ∉ dvals (handleRtcpData S order ts pre).1.router.senders) (hS : ScriptsKeepSenderOut s S) :
    ∀ o ∈ (handleRtcpData S order ts (pre ++ post)).2.drop pre.length, ∀ l, o = .ok l →
      Recipient.sender s ∉ l := by
  rw [handleRtcpData_append]
  show ∀ o ∈ ((handleRtcpData S order ts pre).2 ++ _).drop pre.length, _
  rw [List.drop_append_of_le_length (by rw [handleRtcpData_length]; exact Nat.le_refl _)]
  rw [List.drop_of_length_le (by rw [handleRtcpData_length]; exact Nat.le_refl _), List.nil_append]
  exact (sender_absent_handleRtcpData hord ha hS post).2

/-! ## 3. Whole transport histories -/

/-- The transport hands something to receiver `r`. -/
def handsToReceiver (r : Nat) : TOut → Prop
  | .rtp (some r') => r' = r
  | .rtcp outs => ∃ l, Outcome.ok l ∈ outs ∧ Recipient.receiver r ∈ l
  | _ => False

/-- The transport hands something to sender `s`. -/
def handsToSender (s : Nat) : TOut → Prop
  | .rtcp outs => ∃ l, Outcome.ok l ∈ outs ∧ Recipient.sender s ∈ l
  | _ => False

/-- The (top-level) operation registers receiver `r` / sender `s`. -/
def topRegistersReceiver (r : Nat) : TOp → Prop
  | .table t => registersReceiver r t.toOp
  | _ => False

def topRegistersSender (s : Nat) : TOp → Prop
  | .table t => registersSender s t.toOp
  | _ => False

theorem absent_handleRtpData {ts : TState} {r : Nat} (ha : ReceiverAbsent r ts.router)
    (hS : ScriptsKeepReceiverOut r S) (ssrc pt : Nat) :
    ReceiverAbsent r (handleRtpData S ts ssrc pt).1.router ∧ (handleRtpData S ts ssrc pt).2 ≠ some r := by
  obtain ⟨h1, h2⟩ := absent_step ha (.rtp ssrc pt) (fun h => h)
  have e1 : (step ts.router (.rtp ssrc pt)).1 = (routeRtp ts.router ssrc pt).1 := rfl
  have e2 : (step ts.router (.rtp ssrc pt)).2 = .rtp (routeRtp ts.router ssrc pt).2 := rfl
  rw [e1] at h1; rw [e2] at h2
  unfold handleRtpData
  rcases hr : routeRtp ts.router ssrc pt with ⟨st', _ | r'⟩
  · rw [hr] at h1; exact ⟨h1, by simp⟩
  · rw [hr] at h1 h2
    refine ⟨absent_deliver (ts := { ts with router := st' }) h1 hS _, fun h => ?_⟩
    cases h; exact h2 rfl

theorem absent_tstep (hord : ∀ l, (order l).Perm l) {ts : TState} {r : Nat} (ha : ReceiverAbsent r ts.router)
    (hS : ScriptsKeepReceiverOut r S) (op : TOp) (hop : ¬ topRegistersReceiver r op) :
    ReceiverAbsent r (tstep S order ts op).1.router ∧ ¬ handsToReceiver r (tstep S order ts op).2 := by
  cases op with
  | table t => exact ⟨(absent_step ha t.toOp hop).1, fun h => h⟩
  | rtpData ssrc pt =>
    obtain ⟨h1, h2⟩ := absent_handleRtpData (S := S) ha hS ssrc pt
    refine ⟨h1, ?_⟩
    show ¬ handsToReceiver r (.rtp (handleRtpData S ts ssrc pt).2)
    cases hres : (handleRtpData S ts ssrc pt).2 with
    | none => exact fun h => h
    | some r' => exact fun h => h2 (by rw [hres]; exact congrArg some h)
  | rtcpData pkts =>
    obtain ⟨h1, h2⟩ := absent_handleRtcpData hord ha hS pkts
    exact ⟨h1, fun ⟨l, hl, hm⟩ => h2 _ hl l rfl hm⟩

/-- **Unregistered receivers are gone — at transport level.**  From any state in which `r` occurs in no table (for
instance right after `_unregister_rtp_receiver(r)`, wherever that call came from), through every history of table
operations, RTP datagrams and compound RTCP datagrams, with handlers / other tasks changing the tables during any
delivery in any way that does not register `r` again: nothing is ever handed to `r`. -/
theorem transport_unregistered_receiver_is_gone (S : List Script) {order : List Recipient → List Recipient}
    (hord : ∀ l, (order l).Perm l) (ts : TState) (r : Nat) (ha : ReceiverAbsent r ts.router)
    (hS : ScriptsKeepReceiverOut r S) (ops : List TOp) (hops : ∀ op ∈ ops, ¬ topRegistersReceiver r op) :
    (∀ o ∈ (trun S order ts ops).2, ¬ handsToReceiver r o) ∧ ReceiverAbsent r (trun S order ts ops).1.router := by
  induction ops generalizing ts with
  | nil => exact ⟨by simp [trun_nil], ha⟩
  | cons op ops ih =>
    rw [trun_cons]
    obtain ⟨h1, h2⟩ := absent_tstep hord ha hS op (hops op (by simp))
    obtain ⟨h3, h4⟩ := ih _ h1 (fun o ho => hops o (by simp [ho]))
    refine ⟨fun o ho => ?_, h4⟩
    rcases List.mem_cons.1 ho with ho | ho
    · subst ho; exact h2
    · exact h3 o ho

theorem sender_absent_tstep (hord : ∀ l, (order l).Perm l) {ts : TState} {s : Nat}
    (ha : s ∉ dvals ts.router.senders) (hS : ScriptsKeepSenderOut s S) (op : TOp)
    (hop : ¬ topRegistersSender s op) :
    s ∉ dvals (tstep S order ts op).1.router.senders ∧ ¬ handsToSender s (tstep S order ts op).2 := by
  cases op with
  | table t => exact ⟨(sender_absent_step ha t.toOp hop).1, fun h => h⟩
  | rtpData ssrc pt =>
    refine ⟨?_, fun h => h⟩
    show s ∉ dvals (handleRtpData S ts ssrc pt).1.router.senders
    have e := (route_rtp_state ts.router ssrc pt).2.1
    unfold handleRtpData
    rcases hr : routeRtp ts.router ssrc pt with ⟨st', _ | r'⟩
    · rw [hr] at e; show s ∉ dvals st'.senders; rw [e]; exact ha
    · rw [hr] at e
      exact sender_absent_deliver (ts := { ts with router := st' }) (by show s ∉ dvals st'.senders; rw [e]; exact ha) hS _
  | rtcpData pkts =>
    obtain ⟨h1, h2⟩ := sender_absent_handleRtcpData hord ha hS pkts
    exact ⟨h1, fun ⟨l, hl, hm⟩ => h2 _ hl l rfl hm⟩

/-- **Unregistered senders are gone — at transport level.** -/
theorem transport_unregistered_sender_is_gone (S : List Script) {order : List Recipient → List Recipient}
    (hord : ∀ l, (order l).Perm l) (ts : TState) (s : Nat) (ha : s ∉ dvals ts.router.senders)
    (hS : ScriptsKeepSenderOut s S) (ops : List TOp) (hops : ∀ op ∈ ops, ¬ topRegistersSender s op) :
    ∀ o ∈ (trun S order ts ops).2, ¬ handsToSender s o := by
  induction ops generalizing ts with
  | nil => simp [trun_nil]
  | cons op ops ih =>
    rw [trun_cons]
    obtain ⟨h1, h2⟩ := sender_absent_tstep hord ha hS op (hops op (by simp))
    intro o ho
    rcases List.mem_cons.1 ho with ho | ho
    · subst ho; exact h2
    · exact ih _ h1 (fun o ho => hops o (by simp [ho])) o ho

/-- Without any table change during deliveries the loop is `route_rtcp` mapped over the packets on one and the
same table (the case all of the repo's tests are in). -/
theorem compound_without_table_changes (order : List Recipient → List Recipient) (ts : TState) (pkts : List Rtcp) :
    (handleRtcpData [] order ts pkts).1.router = ts.router ∧
    ∀ k (hk : k < pkts.length), ∃ l, routeRtcp ts.router pkts[k] = .ok l ∧
      (handleRtcpData [] order ts pkts).2[k]? = some (.ok (order l)) := by
  have hdel : ∀ (l : List Recipient) (t : TState), (l.foldl (deliver []) t).router = t.router := by
    intro l
    induction l with
    | nil => intro t; rfl
    | cons x l ih => intro t; rw [List.foldl_cons, ih]; rfl
  have hrouter : ∀ (ps : List Rtcp) (t : TState), (handleRtcpData [] order t ps).1.router = t.router := by
    intro ps
    induction ps with
    | nil => intro t; rfl
    | cons p ps ih =>
      intro t
      rw [handleRtcpData_cons, ih]
      obtain ⟨l, _, hp⟩ := rtcpPacket_ok [] order t p
      rw [hp]; exact hdel _ _
  refine ⟨hrouter pkts ts, fun k hk => ?_⟩
  have hsplit : pkts = pkts.take k ++ pkts[k] :: pkts.drop (k + 1) := by
    rw [List.getElem_cons_drop]; exact (List.take_append_drop k pkts).symm
  obtain ⟨l, hl, hget⟩ := compound_delivery_uses_current_tables [] order ts (pkts.take k) pkts[k] (pkts.drop (k + 1))
  rw [← hsplit] at hget
  rw [hrouter] at hl
  refine ⟨l, hl, ?_⟩
  rw [List.length_take, Nat.min_eq_left (Nat.le_of_lt hk)] at hget
  exact hget

/-! ## Non-vacuity -/

/-- [BYE(1000), SR(1000)] for a receiver that stops itself on the BYE: the SR behind it reaches nobody. -/
example :
    (handleRtcpData [⟨.receiver 0, 1, [.unregReceiver 0]⟩] id
      ⟨registerReceiver Router.empty 0 [1000] [96] none, []⟩ [.bye [1000], .sr 1000 []]).2
    = [.ok [.receiver 0], .ok []] := by decide

/-- [RR(2000), NACK(2000), PLI(2000)] with the sender stopped by another task while it handles the RR; a new sender
registered for the SSRC at the same moment gets the rest of the datagram. -/
example :
    (handleRtcpData [⟨.sender 0, 1, [.unregSender 0, .regSender 1 2000]⟩] List.reverse
      ⟨registerSender Router.empty 0 2000, []⟩ [.rr 1 [2000], .rtpfb 1 1 2000, .psfb 1 1 2000 []]).2
    = [.ok [.sender 0], .ok [.sender 1], .ok [.sender 1]] := by decide

/-- the side conditions are satisfiable by scripts that do change tables -/
example : ScriptsKeepReceiverOut 0 [⟨.receiver 0, 1, [.unregReceiver 0, .regReceiver 1 [1000] [96] none]⟩] ∧
    ScriptsKeepSenderOut 0 [⟨.sender 0, 1, [.unregSender 0, .regSender 1 2000]⟩] := by
  constructor <;> intro s hs t ht <;> simp at hs <;> subst hs <;> simp at ht <;>
    rcases ht with rfl | rfl <;> simp [TableOp.toOp, registersReceiver, registersSender]

example : ∀ l : List Recipient, (List.reverse l).Perm l := fun l => List.reverse_perm l

/-- a whole transport history: RTP latches SSRC 7 to receiver 0, whose handler unregisters it on its 2nd packet -/
example :
    (trun [⟨.receiver 0, 2, [.unregReceiver 0]⟩] id TState.fresh
      [.table (.regReceiver 0 [] [96] none), .rtpData 7 96, .rtcpData [.sr 7 [], .bye [7]], .rtpData 7 96]).2
    = [.unit, .rtp (some 0), .rtcp [.ok [.receiver 0], .ok []], .rtp none] := by decide

end Aiortc.Props.C12
