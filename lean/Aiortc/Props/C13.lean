import Aiortc.Lemmas.C13.SctpLifeHandle
import Aiortc.Lemmas.C13.SctpBufHandle
import Aiortc.Lemmas.C13.SctpClose
import Aiortc.Lemmas.C13.SctpIds
import Aiortc.Lemmas.C13.SctpDcep
import Aiortc.Lemmas.C13.SctpUtf8
import Aiortc.Lemmas.C13.SctpNeg
import Aiortc.Lemmas.C13.SctpOpen
import Aiortc.Lemmas.C13.SctpReset
import Aiortc.Lemmas.C13.SctpReact
import Aiortc.Lemmas.C13.SctpFuel
/-!
# C13 — data channel lifecycle: faithful open, forward-only states, exact bufferedAmount

All statements are about the endpoint automaton `Aiortc.Sctp.step` (`Model/Sctp/Endpoint.lean`), the
executable model of `RTCSctpTransport` + `RTCDataChannel` that `./check C13` replays against two real
endpoints step by step.  They hold for EVERY endpoint state satisfying the stated invariant, every clock
value and every input (datagram bytes, timer, task, application call) - hence for all programs of
create/send/close operations and all datagram fault schedules; the invariants hold in the initial state
and are preserved by every step (`lifeInv_init`, `ready_forward`; `bufInv_init`, `buffered_exact`).

Channel objects are identified by their index `i` in `Ep.chans` (creation order); `ready` encodes
`readyState` as 0 connecting < 1 open < 2 closing < 3 closed.
-/
namespace Aiortc.Props.C13
open Aiortc Aiortc.Gen Aiortc.Sctp Aiortc.Sctp.Wire

/-! ## constants of the property text / wire format -/

theorem userdata_max_const : Aiortc.Gen.USERDATA_MAX_LENGTH = 1200 := by decide
theorem dcep_const : WEBRTC_DCEP = 50 ∧ DATA_CHANNEL_OPEN = 3 ∧ DATA_CHANNEL_ACK = 2 ∧
    DATA_CHANNEL_RELIABLE = 0 := by decide
theorem ppid_const : WEBRTC_STRING = 51 ∧ WEBRTC_BINARY = 53 ∧ WEBRTC_STRING_EMPTY = 56 ∧
    WEBRTC_BINARY_EMPTY = 57 := by decide

/-! ## (a) faithful open -/

/-- **DCEP round trip.** For every label and protocol that is valid UTF-8 and shorter than 65536 bytes,
every `ordered` flag and every reliability setting (at most one of maxRetransmits/maxPacketLifeTime,
below 2^32), `_data_channel_open`'s message parsed by the OPEN branch of `_data_channel_receive` gives
back exactly label, protocol, ordered, maxRetransmits, maxPacketLifeTime. -/
theorem dcep_roundtrip (c : Chan)
    (hl : c.label.length < 65536) (hp : c.protocol.length < 65536)
    (hul : utf8Valid c.label = true) (hup : utf8Valid c.protocol = true)
    (hone : c.maxRetransmits = none ∨ c.maxPacketLifeTime = none)
    (hr : ∀ r, c.maxRetransmits = some r → r < 4294967296)
    (ht : ∀ r, c.maxPacketLifeTime = some r → r < 4294967296) :
    ∃ d, encodeOpen c = .ok d ∧ decodeOpen d = some c.openParams :=
  decodeOpen_encodeOpen c hl hp hul hup hone hr ht

def exampleChan : Chan :=
  { id := none, label := [0x68, 0xC3, 0xA9], protocol := [0xF0, 0x9F, 0x99, 0x82],
    ordered := false, maxRetransmits := some 3 }

example : ∃ d, encodeOpen exampleChan = .ok d ∧ decodeOpen d = some
      ⟨[0x68, 0xC3, 0xA9], [0xF0, 0x9F, 0x99, 0x82], false, some 3, none⟩ :=
  dcep_roundtrip exampleChan (by decide) (by decide) (by decide) (by decide) (Or.inr rfl)
    (by intro r h; cases h; decide) (by intro r h; cases h)

/-- `bytes.decode("utf8")` as modelled by `utf8Valid` accepts exactly the concatenations of UTF-8 encoded
Unicode scalar values (Unicode Table 3-6/3-7: no overlong forms, no surrogates, nothing above U+10FFFF):
any Unicode label/protocol is accepted, and nothing else is. -/
theorem utf8_exact (b : Bytes) :
    utf8Valid b = true ↔ ∃ cps : List Nat, (∀ n ∈ cps, Scalar n) ∧ b = cps.flatMap encodeCp :=
  utf8Valid_iff b

example : utf8Valid ([0x41, 0x7FF, 0x800, 0xFFFF, 0x10000, 0x10FFFF].flatMap encodeCp) = true := by decide
example : utf8Valid [0xC0, 0x80] = false ∧ utf8Valid [0xED, 0xA0, 0x80] = false ∧
    utf8Valid [0xF4, 0x90, 0x80, 0x80] = false ∧ utf8Valid [0xE2, 0x82] = false := by decide

/-- **The `datachannel` event mirrors the opener.** When a DATA_CHANNEL_OPEN that decodes to `p` arrives on a
stream id `sid` that is not in use, the endpoint creates one channel object with exactly the parameters
`p` and id `sid`, not negotiated, and (while the transport still has listeners) emits the `datachannel`
event for it. -/
theorem open_announces (sid : Nat) (data : Bytes) (p : OpenParams) (hp : decodeOpen data = some p)
    (s : St) (hI : LifeInv s.1) (hfree : dictGet s.1.dataChannels sid = none) :
    WP (dcReceive sid WEBRTC_DCEP data) (OpenPost sid p s) s :=
  dcReceive_open sid data p hp s hI hfree

/-! ## (b) automatically chosen ids -/

/-- The id `_data_channel_flush` chooses for a channel without id has the parity of the allocator's start
value (`_data_channel_id`: 0 on the side with `is_server`, 1 on the other) and is not registered. -/
theorem ids_disjoint (e : Ep) (start : Nat) :
    flushLoop.pick e (e.dataChannels.length + 1) start % 2 = start % 2 ∧
    dictGet e.dataChannels (flushLoop.pick e (e.dataChannels.length + 1) start) = none :=
  ⟨pick_parity e _ start, pick_free e start⟩

/-- Whatever the step: an id that gets *assigned* to an existing channel object (it had none before) is even
on the server side and odd on the client side; an id once set never changes. -/
theorem auto_id_parity (e : Ep) (now : Int) (inp : Input) (hI : LifeInv e)
    (i : Nat) (c : Chan) (hc : e.chans[i]? = some c) :
    ∃ c', (step e now inp).1.chans[i]? = some c' ∧
      (∀ s, c.id = some s → c'.id = some s) ∧
      (c.id = none → ∀ s, c'.id = some s → s % 2 = (if e.isServer then 0 else 1)) := by
  obtain ⟨c', hc', hst⟩ := (step_forward e now inp hI).2.2.1 i c hc
  exact ⟨c', hc', hst.id_keep, fun h s hs => (hst.id_auto h s hs).1⟩

/-- the two sides of an association have different roles, so their automatic ids never collide -/
theorem auto_ids_never_collide (eA eB : Ep) (hrole : eA.isServer ≠ eB.isServer) (a b : Nat)
    (ha : a % 2 = (if eA.isServer then 0 else 1)) (hb : b % 2 = (if eB.isServer then 0 else 1)) : a ≠ b := by
  intro hab
  subst hab
  cases hA : eA.isServer <;> cases hB : eB.isServer <;> simp_all

/-- **Automatically chosen ids stay below 65536.** Whatever the step: an id that gets assigned to an existing channel
object is at most 65535 (a channel that cannot get one is closed instead, fix "close a data channel that cannot get
a stream id"). -/
theorem auto_id_in_range (e : Ep) (now : Int) (inp : Input) (hI : LifeInv e)
    (i : Nat) (c : Chan) (hc : e.chans[i]? = some c) :
    ∃ c', (step e now inp).1.chans[i]? = some c' ∧
      (c.id = none → ∀ s, c'.id = some s → s ≤ 65535) := by
  obtain ⟨c', hc', hst⟩ := (step_forward e now inp hI).2.2.1 i c hc
  exact ⟨c', hc', fun h s hs => (hst.id_auto h s hs).2⟩

/-- the same for `_data_channel_flush`'s loop alone, with any fuel and any outcome: every id it assigns is
≤ 65535 and has the role's parity -/
theorem flushLoop_ids_in_range (fuel : Nat) (s : St) (hI : LifeInv s.1) :
    WP (flushLoop fuel) (fun _ s' => ∀ (i : Nat) c, s.1.chans[i]? = some c →
      ∃ c', s'.1.chans[i]? = some c' ∧
        (c.id = none → ∀ x, c'.id = some x → x ≤ 65535 ∧ x % 2 = (if s.1.isServer then 0 else 1))) s := by
  refine WP.mono ((fwd_flushLoop fuel).out s hI) ?_
  intro r s' h i c hc
  obtain ⟨c', hc', hst⟩ := (h (fun h => h.elim)).2.2.1 i c hc
  exact ⟨c', hc', fun hn x hx => ⟨(hst.id_auto hn x hx).2, (hst.id_auto hn x hx).1⟩⟩

/-- **A stream reset waits for the queued data.** If `_transmit_reconfig` issues a new request, none of the streams in it
is the id of a channel that still has an entry in `_data_channel_queue` (so a DATA_CHANNEL_OPEN or user message
that has not been handed to `_send` yet can never be overtaken by the reset of its stream; fix "send a stream reset
only after the data queued for the channel has been sent"). -/
theorem reset_deferred (s : St) : WP transmitReconfig (ResetPost s) s :=
  transmitReconfig_deferred s

example : ([1, 3].filter fun x => !([some 1, none] : List (Option Nat)).contains (some x)).take 135 = [3] := by decide

/-! ## (c) `readyState` only moves forward; at most one `open` / `close` / `datachannel` event -/

theorem lifeInv_init (isServer : Bool) (tag tsn : Nat) : LifeInv (Ep.init isServer tag tsn) :=
  ⟨(by intro c hc; cases hc), (by intro d hd; cases hd)⟩

/-- **Forward only.** For every state, clock and input: every channel object is still there after the step
(channels are only appended), its `ready` did not decrease and stays within 0..3, and its label, protocol,
ordered flag, reliability settings and `negotiated` flag are unchanged.  The invariant is preserved. -/
theorem ready_forward (e : Ep) (now : Int) (inp : Input) (hI : LifeInv e) :
    LifeInv (step e now inp).1 ∧
    e.chans.length ≤ (step e now inp).1.chans.length ∧
    ∀ (i : Nat) c, e.chans[i]? = some c → ∃ c', (step e now inp).1.chans[i]? = some c' ∧
      c.ready ≤ c'.ready ∧ c'.ready ≤ 3 ∧ c'.label = c.label ∧ c'.protocol = c.protocol ∧
      c'.ordered = c.ordered ∧ c'.maxRetransmits = c.maxRetransmits ∧
      c'.maxPacketLifeTime = c.maxPacketLifeTime ∧ c'.negotiated = c.negotiated := by
  have h := step_forward e now inp hI
  refine ⟨h.1, FwdRel.length_le h.2, ?_⟩
  intro i c hc
  obtain ⟨c', hc', hst⟩ := h.2.2.1 i c hc
  exact ⟨c', hc', hst.ready, h.1.1 c' (List.mem_of_getElem? hc'), hst.label, hst.protocol, hst.ordered,
    hst.maxRetransmits, hst.maxPacketLifeTime, hst.negotiated⟩

/-- the same over arbitrary input sequences (any two points of a run are related this way, because the
statement holds from every intermediate state) -/
theorem ready_forward_run (e : Ep) (ins : List (Int × Input)) (hI : LifeInv e) :
    LifeInv (runSteps e ins).1 ∧
    ∀ (i : Nat) c, e.chans[i]? = some c → ∃ c', (runSteps e ins).1.chans[i]? = some c' ∧
      c.ready ≤ c'.ready ∧ c'.ready ≤ 3 := by
  have h := run_forward e ins hI
  refine ⟨h.1, ?_⟩
  intro i c hc
  obtain ⟨c', hc', hst⟩ := h.2.2.1 i c hc
  exact ⟨c', hc', hst.ready, h.1.1 c' (List.mem_of_getElem? hc')⟩

/-- **Events only on change.** If a step emits `open` for channel `i`, the channel was `connecting` (or did
not exist) before and is at least `open` after; if it emits `close`, the channel was not closed before and is
closed after; a `datachannel` event is only emitted for a channel object created in that very step. -/
theorem events_on_change (e : Ep) (now : Int) (inp : Input) (hI : LifeInv e) (k : Kind) (i : Nat)
    (hev : 0 < (step e now inp).2.countP (Kind.ev k i)) :
    (step e now inp).2.countP (Kind.ev k i) = 1 ∧ bud k e i = 1 ∧ bud k (step e now inp).1 i = 0 := by
  have h := (step_forward e now inp hI).2.2.2 k i
  simp only [List.countP_nil] at h
  have hb : bud k e i ≤ 1 := by unfold bud; split <;> (try split) <;> omega
  omega

/-- **At most one `open`, one `close`, one `datachannel` event per channel object** over every run from the
initial state. -/
theorem at_most_one_event (isServer : Bool) (tag tsn : Nat) (ins : List (Int × Input)) (k : Kind) (i : Nat) :
    (runSteps (Ep.init isServer tag tsn) ins).2.countP (Kind.ev k i) ≤ 1 := by
  have h := (run_forward _ ins (lifeInv_init isServer tag tsn)).2.2.2 k i
  simp only [List.countP_nil] at h
  have hb : bud k (Ep.init isServer tag tsn) i ≤ 1 := by unfold bud; split <;> (try split) <;> omega
  omega

example : Kind.ev .opened 3 (.evOpen 3) = true ∧ Kind.ev .closed 3 (.evClose 3) = true ∧
    Kind.ev .announced 3 (.evChannel 3) = true ∧ Kind.ev .opened 3 (.evOpen 4) = false := by decide

/-! ## (d) `bufferedAmount` is exact -/

theorem bufInv_init (isServer : Bool) (tag tsn : Nat) : BufInv (Ep.init isServer tag tsn) :=
  ⟨(by intro x hx; cases hx), (by intro i c hc; simp [Ep.init] at hc)⟩

/-- **Exact accounting.** `bufferedAmount` of every channel that is not closed equals the number of user-data
bytes queued for it in `_data_channel_queue` (accepted by `send()`, not yet handed to `_send`); the
invariant is preserved by every step in which no exception escapes a handler. -/
theorem buffered_exact (e : Ep) (now : Int) (inp : Input) (hI : BufInv e)
    (hok : NoCrash (step e now inp).2) : BufInv (step e now inp).1 :=
  step_buffered e now inp hI hok

/-- never negative, and zero once nothing is queued for the channel -/
theorem buffered_nonneg_drained (e : Ep) (hI : BufInv e) (i : Nat) (c : Chan) (hc : e.chans[i]? = some c)
    (h3 : c.ready ≠ 3) :
    c.buffered = qsum e.dcQueue i ∧ 0 ≤ c.buffered ∧ ((∀ x ∈ e.dcQueue, x.1 ≠ i) → c.buffered = 0) :=
  ⟨hI.2 i c hc h3, hI.nonneg hc h3, hI.drained hc h3⟩

/-- `send()` and the flush loop separately (the two places that move `bufferedAmount`) -/
theorem buffered_send_flush : (∀ i isStr data, Pres bufSpec (handle (.send i isStr data))) ∧
    (∀ fuel, Pres bufSpec (flushLoop fuel)) ∧ Pres bufSpec flush :=
  ⟨buf_send, buf_flushLoop, buf_flush⟩

/-- a handler that re-enters `send()` (and `_data_channel_send` itself) is accounted exactly like a `send()`: the bytes are
added to `bufferedAmount` and queued, so `BufInv` also holds after every step in which a handler sent -/
theorem buffered_react : (∀ k i, Pres bufSpec (react k i)) ∧ (∀ i isStr data, Pres bufSpec (dcSend i isStr data)) :=
  ⟨buf_react, buf_dcSend⟩

/-- **`bufferedamountlow` fires exactly on downward crossings**: `_addBufferedAmount(amount)` - up to the application's
handler, `addBufferedCore` - adds the amount and emits the event (and returns `true`) iff the amount was above the
threshold and is now at most the threshold (and the channel can have listeners). -/
theorem evLow_exact (i : Nat) (amount : Int) (s : St) (c : Chan) (hc : s.1.chans[i]? = some c) {Q}
    (h : Q (.ok (decide ((c.buffered > c.threshold ∧ c.buffered + amount ≤ c.threshold) ∧ c.silent = false ∧ c.ready ≠ 3)))
      ({ s.1 with chans := s.1.chans.set i { c with buffered := c.buffered + amount } },
        s.2 ++ (if (c.buffered > c.threshold ∧ c.buffered + amount ≤ c.threshold) ∧ c.silent = false ∧ c.ready ≠ 3
                then [Out.evLow i] else []))) :
    WP (addBufferedCore i amount) Q s :=
  wp_addBufferedCore i amount s c hc h

/-- `_addBufferedAmount` with the application's handler = the core followed by at most one reaction, which runs exactly
when the event fired (the stored amount is the one computed BEFORE the handler runs; the handler's own `send()` then adds
to the stored value) -/
theorem addBuffered_core_react (i : Nat) (amount : Int) :
    addBuffered i amount = (addBufferedCore i amount >>= fun fired => if fired then react 2 i else pure ()) := rfl

/-! ## re-entrant application handlers -/

/-- **A handler sends only on an open channel.** `react k i` does nothing without a matching armed reaction; otherwise it
consumes the reaction and - iff channel `i` is open - continues with exactly `dcSend` (`_data_channel_send`); on a channel that
is not open it only emits `.rexc i "InvalidStateError"` and changes nothing else. -/
theorem react_sends_only_when_open (k i : Nat) (s : St) (Q : Except String Unit → St → Prop) :
    WP (react k i) Q s ↔
      match armed s.1 k i with
      | none => Q (.ok ()) s
      | some r =>
        match s.1.chans[i]? with
        | none => Q (.error "IndexError") ({ s.1 with reactions := s.1.reactions.erase r }, s.2)
        | some c =>
          if c.ready ≠ 1 then
            Q (.ok ()) ({ s.1 with reactions := s.1.reactions.erase r }, s.2 ++ [.rexc i "InvalidStateError"])
          else WP (dcSend i r.2.2.1 r.2.2.2) Q ({ s.1 with reactions := s.1.reactions.erase r }, s.2) :=
  react_spec k i s Q

example : armed { (Ep.init true 1 2) with reactions := [(3, 0, true, [104]), (4, 7, false, [])] } 4 0
    = some (4, 7, false, []) := by decide

/-- **Reactions are one-shot.** Every step leaves at most one more armed reaction than before, only the `.react` input (the
application attaching a handler) adds one, and a handler that fires makes the list strictly shorter. -/
theorem reactions_one_shot :
    (∀ e now inp, (step e now inp).1.reactions.length ≤ e.reactions.length + 1) ∧
    (∀ e now inp, (∀ k i isStr data, inp ≠ .react k i isStr data) →
      (step e now inp).1.reactions.length ≤ e.reactions.length) ∧
    (∀ k i (s : St), (armed s.1 k i).isSome →
      WP (react k i) (fun _ s' => s'.1.reactions.length < s.1.reactions.length) s) :=
  ⟨step_reactions, step_reactions_le, react_consumes⟩

/-- **The fuel of `flush` suffices.** With `len(queue) + len(reactions) + 1` units of fuel (what `flush` passes) - or more -
the loop returns normally only when its real exit condition holds (queue empty or outbound queue non-empty), never because the
fuel ran out, although handlers running inside the loop append entries. -/
theorem flush_fuel_suffices (fuel : Nat) (s : St) (h : s.1.dcQueue.length + s.1.reactions.length + 1 ≤ fuel) :
    WP (flushLoop fuel) LoopDone s :=
  flushLoop_fuel fuel s h

example (s : St) : WP (flushLoop (s.1.dcQueue.length + s.1.reactions.length + 1)) LoopDone s :=
  flush_fuel_suffices _ s (Nat.le_refl _)

/-! ## (e) when the association ends every channel closes -/

/-- After `_set_state(CLOSED)` (abort, shutdown, `stop()`, T1/T2 giving up) every channel object registered in
`_data_channels` or still waiting in `_data_channel_queue` is closed and both containers are empty. -/
theorem closed_all (s : St) (hnd : (s.1.dataChannels.map (·.1)).Nodup) :
    WP (setState .closed) (ClosedAllPost s) s :=
  Aiortc.Sctp.closed_all s hnd

example : (([(1, 0), (3, 1)] : List (Nat × Nat)).map (·.1)).Nodup := by decide

/-! ## (f) negotiated channels pair up by id -/

/-- `RTCDataChannel(negotiated=True, id=v)` registers exactly id `v` for the new channel object (open at once if
the association is established, connecting otherwise), or raises `ValueError` (id missing, outside 0..65534,
or already registered) and leaves the transport unchanged. -/
theorem negotiated_exact_id (p : CreateParams) (hneg : p.negotiated = true) (e : Ep) (l : List Out) :
    WP (createChannel p) (NegPost p e l) (e, l) :=
  createChannel_negotiated p hneg e l

end Aiortc.Props.C13
