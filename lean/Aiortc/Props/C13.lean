import Aiortc.Model.Sctp.Endpoint
/-! # C13 (placeholder while the theorems are being written) -/
namespace Aiortc.Props.C13
theorem userdata_max_const : Aiortc.Gen.USERDATA_MAX_LENGTH = 1200 := by decide
end Aiortc.Props.C13
