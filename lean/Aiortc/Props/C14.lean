import Aiortc.Lemmas.Jsep
import Aiortc.Gen.Jsep
/-!
# C14 — signalling follows the JSEP state machine; illegal calls have no side effects

All theorems are about `Aiortc.Model.Jsep.step` / `run` (Model/Jsep/Signaling.lean, the model of the
patched `RTCPeerConnection`) and hold for **every** call sequence of any length, with descriptions of
arbitrary content; `Spec` (Model/Jsep/Spec.lean) is the JSEP machine of the property text.
-/
namespace Aiortc.Props.C14
open Aiortc.Model.Jsep
open Aiortc.Model.Jsep.Spec (next mediaOk wellFormed matchesOffer acceptable setDesc Verdict St)

/-! ## Reachable states -/

theorem inv_init : Inv Pc.init := by
  constructor <;> simp [Pc.init]

theorem inv_applyLocal {pc : Pc} (h : Inv pc) (d : Desc) : Inv (applyLocal pc d).2 := by
  obtain ⟨h1, h2, h3, h4, h5⟩ := h
  unfold applyLocal
  cases hv : validate pc d true with
  | some e => exact ⟨h1, h2, h3, h4, h5⟩
  | none =>
    cases ht : d.type <;> cases hs : pc.sig <;>
      simp_all [validate, validateWith, stateCheck] <;>
      constructor <;> simp_all [Pc.setSig, Pc.localDescription, Pc.remoteDescription]

theorem inv_setRemote {pc : Pc} (h : Inv pc) (d : Desc) : Inv (setRemote pc d).2 := by
  obtain ⟨h1, h2, h3, h4, h5⟩ := h
  unfold setRemote
  by_cases hi : d.type = .invalid
  · simp only [hi, beq_self_eq_true, if_true]; exact ⟨h1, h2, h3, h4, h5⟩
  · cases hv : validate pc d false with
    | some e => simp only [beq_iff_eq, hi, if_false]; exact ⟨h1, h2, h3, h4, h5⟩
    | none =>
      cases ht : d.type <;> cases hs : pc.sig <;>
        simp_all [validate, validateWith, stateCheck] <;>
        constructor <;> simp_all [Pc.setSig, Pc.localDescription, Pc.remoteDescription]

/-- The invariant is preserved by every call (also by pranswer / rollback descriptions). -/
theorem inv_step {pc : Pc} (h : Inv pc) (c : Call) : Inv (step pc c).2 := by
  cases c with
  | createOffer km => exact h
  | createAnswer => exact h
  | setLocal d =>
    simp only [step, setLocal]
    split
    · exact h
    · split
      · exact h
      · exact inv_applyLocal h d
  | setLocalImplicit km =>
    simp only [step, setLocalImplicit]
    split
    · exact h
    · split
      · exact inv_applyLocal h _
      · exact h
  | setRemote d => exact inv_setRemote h d
  | close =>
    simp only [step, close]
    split
    · exact h
    · constructor <;> simp [Pc.setSig, Pc.localDescription, Pc.remoteDescription]

/-- Every state reached from a fresh connection by any call sequence satisfies the invariant; in
particular `have-local-pranswer` / `have-remote-pranswer` are unreachable, the closed latch and
`signalingState = "closed"` coincide, and a pending offer is always there when the state says so. -/
theorem inv_run {pc : Pc} (h : Inv pc) (cs : List Call) : Inv (run pc cs).2 := by
  induction cs generalizing pc with
  | nil => exact h
  | cons c cs ih => exact ih (inv_step h c)

theorem inv_reachable (cs : List Call) : Inv (run Pc.init cs).2 := inv_run inv_init cs

/-! ## A failing call has no effect at all (every call, every state, no hypothesis) -/

theorem applyLocal_failed (pc : Pc) (d : Desc) (hf : (applyLocal pc d).1.failed = true) :
    (applyLocal pc d).2 = pc := by
  unfold applyLocal at *
  cases hv : validate pc d true with
  | some e => rfl
  | none => simp only [hv] at hf; split at hf <;> simp [Res.failed] at hf

theorem setRemote_failed (pc : Pc) (d : Desc) (hf : (setRemote pc d).1.failed = true) :
    (setRemote pc d).2 = pc := by
  unfold setRemote at *
  split
  · rfl
  · rename_i h1
    rw [if_neg h1] at hf
    cases hv : validate pc d false with
    | some e => rfl
    | none =>
      rw [hv] at hf
      by_cases hc : pc.isClosed = true
      · simp [hc]
      · simp only [hc] at hf
        by_cases ha : (d.type == .answer) = true <;> simp [ha, Res.failed] at hf

/-- **No side effects**: whenever a call raises (InvalidStateError, ValueError or anything else), the
whole modelled state — signalling state, closed latch, all four description slots, the number of
`signalingstatechange` events — is exactly what it was before. -/
theorem failed_call_no_effect (pc : Pc) (c : Call) (hf : (step pc c).1.failed = true) :
    (step pc c).2 = pc := by
  cases c with
  | createOffer km => rfl
  | createAnswer => rfl
  | setLocal d =>
    simp only [step, setLocal] at *
    split
    · rfl
    · split
      · rfl
      · rename_i h1 h2; simp only [h1, h2, if_false] at hf; exact applyLocal_failed pc d hf
  | setLocalImplicit km =>
    simp only [step, setLocalImplicit] at *
    split
    · rfl
    · rename_i h1
      simp only [h1, if_false] at hf
      split
      · rename_i d hd; simp only [hd] at hf; exact applyLocal_failed pc d hf
      · rfl
  | setRemote d => exact setRemote_failed pc d hf
  | close =>
    simp only [step, close] at *
    split at hf <;> simp [Res.failed] at hf

/-! ## Refinement of the JSEP machine -/

theorem applyLocal_eq {pc : Pc} (hinv : Inv pc) (d : Desc) (ht : d.type = .offer ∨ d.type = .answer) :
    ((applyLocal pc d).1.verdict, (applyLocal pc d).2.obs) =
      (some (setDesc pc.obs true d).1, (setDesc pc.obs true d).2) := by
  unfold applyLocal setDesc
  rw [validate_eq pc d true hinv ht]
  have hni : d.type ≠ .invalid := by rcases ht with h | h <;> simp [h]
  simp only [hni, if_false, Pc.obs, if_true]
  cases hn : next pc.sig true d.type with
  | none => simp [Res.verdict]
  | some s' =>
    by_cases ha : acceptable d pc.remoteDescription = true
    · rcases ht with ht | ht <;> cases hs : pc.sig <;>
        simp_all [Res.verdict, next, Pc.setSig, Pc.localDescription, Pc.remoteDescription]
    · simp [ha, Res.verdict]

theorem setRemote_eq {pc : Pc} (hinv : Inv pc) (d : Desc) (ht : d.type = .offer ∨ d.type = .answer) :
    ((setRemote pc d).1.verdict, (setRemote pc d).2.obs) =
      (some (setDesc pc.obs false d).1, (setDesc pc.obs false d).2) := by
  unfold setRemote setDesc
  rw [validate_eq pc d false hinv ht]
  have hni : d.type ≠ .invalid := by rcases ht with h | h <;> simp [h]
  simp only [hni, if_false, Pc.obs, beq_iff_eq]
  cases hn : next pc.sig false d.type with
  | none => simp [Res.verdict]
  | some s' =>
    have hcl : pc.isClosed = false := by
      cases h : pc.isClosed with
      | false => rfl
      | true =>
        have := hinv.closed_iff.mp h
        rw [this] at hn
        rcases ht with h | h <;> simp [h, next] at hn
    by_cases ha : acceptable d pc.localDescription = true
    · rcases ht with ht | ht <;> cases hs : pc.sig <;>
        simp_all [Res.verdict, next, Pc.setSig, Pc.localDescription, Pc.remoteDescription]
    · simp [ha, Res.verdict]

theorem mediaOk_answerMedia (m : Media) : mediaOk .answer (answerMedia m) = true := by
  cases hk : m.kind <;> simp [mediaOk, answerMedia, Kind.isRtp, hk]

theorem mediaOk_offerMedia (km : Kind × String) : mediaOk .offer (offerMedia km) = true := by
  cases hk : km.1 <;> simp [mediaOk, offerMedia, Kind.isRtp, DType.answerLike, hk]

/-- What `createAnswer` builds is acceptable as an answer to the description it was built from. -/
theorem answerTo_acceptable (r : Desc) : acceptable (answerTo r) (some r) = true := by
  have h1 : ∀ m ∈ r.media, mediaOk .answer (answerMedia m) = true := fun m _ => mediaOk_answerMedia m
  simp [acceptable, wellFormed, matchesOffer, answerTo, mediaKeys, List.all_map, Function.comp_def]
  exact ⟨h1, by simp [answerMedia]⟩

theorem offerOf_acceptable (km : List (Kind × String)) (o : Option Desc) : acceptable (offerOf km) o = true := by
  simp [acceptable, wellFormed, offerOf, List.all_map, mediaOk_offerMedia, Function.comp_def]

theorem setLocalImplicit_eq {pc : Pc} (hinv : Inv pc) (km : List (Kind × String)) :
    ((setLocalImplicit pc km).1.verdict, (setLocalImplicit pc km).2.obs) =
      (some (Spec.step pc.obs (.setLocalImplicit km)).1, (Spec.step pc.obs (.setLocalImplicit km)).2) := by
  unfold setLocalImplicit
  by_cases hc : pc.isClosed = true
  · have hs := hinv.closed_iff.mp hc
    simp [hc, Spec.step, Pc.obs, hs, Res.verdict]
  · have hs : pc.sig ≠ .closed := fun h => hc (hinv.closed_iff.mpr h)
    simp only [hc, if_false, Bool.false_eq_true]
    by_cases hr : pc.sig = .haveRemoteOffer
    · have hp := hinv.remote_offer_present hr
      cases hrd : pc.remoteDescription with
      | none => exact absurd hrd hp
      | some r =>
        have hc' : pc.isClosed = false := by simpa using hc
        have hcr : createAnswer pc = .created (answerTo r) := by
          simp [createAnswer, hc', hr, hrd]
        have ha := applyLocal_eq hinv (answerTo r) (Or.inr rfl)
        have hacc := answerTo_acceptable r
        simp only [hr, beq_self_eq_true, if_true, hcr]
        rw [ha]
        simp [Spec.step, setDesc, Pc.obs, hr, hrd, next, hacc, show (answerTo r).type = DType.answer from rfl]
    · have hc' : pc.isClosed = false := by simpa using hc
      have hco : createOffer pc km = .created (offerOf km) := by simp [createOffer, hc']
      have ha := applyLocal_eq hinv (offerOf km) (Or.inl rfl)
      have hacc := offerOf_acceptable km pc.remoteDescription
      have h1 := hinv.no_local_pranswer
      have h2 := hinv.no_remote_pranswer
      simp only [beq_iff_eq, hr, if_false, hco]
      rw [ha]
      have hty : (offerOf km).type = DType.offer := rfl
      cases hsig : pc.sig <;>
        simp_all [Spec.step, setDesc, Pc.obs, next]

/-- **Refinement, one step.**  In every reachable state and for every call of the property's alphabet,
the modelled connection raises exactly what the JSEP machine prescribes (never anything but
InvalidStateError / ValueError) and its public state `(signalingState, localDescription,
remoteDescription)` moves exactly as the JSEP machine does. -/
theorem step_refines_jsep {pc : Pc} (hinv : Inv pc) (c : Call) (hc : c.inAlphabet = true) :
    (step pc c).1.verdict = some (Spec.step pc.obs c).1 ∧ (step pc c).2.obs = (Spec.step pc.obs c).2 := by
  cases c with
  | createOffer km =>
    have := hinv.closed_iff
    cases hcl : pc.isClosed <;> cases hs : pc.sig <;>
      simp_all [step, Spec.step, createOffer, Pc.obs, Res.verdict]
  | createAnswer =>
    have h1 := hinv.closed_iff
    have h2 := hinv.no_local_pranswer
    have h3 := hinv.remote_offer_present
    cases hcl : pc.isClosed <;> cases hs : pc.sig <;>
      simp_all [step, Spec.step, createAnswer, Pc.obs, Res.verdict]
    cases hr : pc.remoteDescription <;> simp_all [Res.verdict]
  | setLocal d =>
    simp only [Call.inAlphabet, DType.inAlphabet, Bool.or_eq_true, beq_iff_eq] at hc
    by_cases hi : d.type = .invalid
    · simp [step, setLocal, Spec.step, setDesc, hi, Res.verdict]
    · have ht : d.type = .offer ∨ d.type = .answer := by
        rcases hc with (h | h) | h
        · exact Or.inl h
        · exact Or.inr h
        · exact absurd h hi
      by_cases hcl : pc.isClosed = true
      · have hs := hinv.closed_iff.mp hcl
        rcases ht with ht | ht <;>
          simp [step, setLocal, Spec.step, setDesc, hi, hcl, hs, ht, next, Res.verdict, Pc.obs]
      · have := applyLocal_eq hinv d ht
        simp only [Prod.mk.injEq] at this
        simpa [step, setLocal, Spec.step, hi, hcl] using this
  | setLocalImplicit km =>
    have := setLocalImplicit_eq hinv km
    simp only [Prod.mk.injEq] at this
    simpa [step] using this
  | setRemote d =>
    simp only [Call.inAlphabet, DType.inAlphabet, Bool.or_eq_true, beq_iff_eq] at hc
    by_cases hi : d.type = .invalid
    · simp [step, setRemote, Spec.step, setDesc, hi, Res.verdict]
    · have ht : d.type = .offer ∨ d.type = .answer := by
        rcases hc with (h | h) | h
        · exact Or.inl h
        · exact Or.inr h
        · exact absurd h hi
      have := setRemote_eq hinv d ht
      simp only [Prod.mk.injEq] at this
      simpa [step, Spec.step] using this
  | close =>
    have := hinv.closed_iff
    cases hcl : pc.isClosed <;> cases hs : pc.sig <;>
      simp_all [step, Spec.step, close, Pc.obs, Res.verdict, Pc.setSig, Pc.localDescription, Pc.remoteDescription]

/-- **Refinement, all call sequences** (`refines_jsep` of DESIGN.md): from a fresh connection — or any
reachable state — the results of the calls and the final public state are those of the JSEP machine. -/
theorem run_refines_jsep {pc : Pc} (hinv : Inv pc) (cs : List Call) (hcs : ∀ c ∈ cs, c.inAlphabet = true) :
    (run pc cs).1.map Res.verdict = (Spec.run pc.obs cs).1.map some ∧
      (run pc cs).2.obs = (Spec.run pc.obs cs).2 := by
  induction cs generalizing pc with
  | nil => simp [run, Spec.run]
  | cons c cs ih =>
    have hc := step_refines_jsep hinv c (hcs c (by simp))
    have ih' := ih (inv_step hinv c) (fun c' h' => hcs c' (by simp [h']))
    simp only [run, Spec.run, List.map_cons]
    rw [← hc.2]
    exact ⟨by rw [hc.1, ih'.1], ih'.2⟩

theorem refines_jsep (cs : List Call) (hcs : ∀ c ∈ cs, c.inAlphabet = true) :
    (run Pc.init cs).1.map Res.verdict = (Spec.run Pc.init.obs cs).1.map some ∧
      (run Pc.init cs).2.obs = (Spec.run Pc.init.obs cs).2 :=
  run_refines_jsep inv_init cs hcs

/-- No exception class other than InvalidStateError / ValueError on the property's alphabet. -/
theorem no_crash {pc : Pc} (hinv : Inv pc) (c : Call) (hc : c.inAlphabet = true) (k : String) :
    (step pc c).1 ≠ .crash k := by
  intro h
  have := (step_refines_jsep hinv c hc).1
  simp [h, Res.verdict] at this

/-! ## Illegal calls: InvalidStateError and nothing changes -/

/-- A description whose type is illegal in the current state (JSEP table has no entry: an answer
without a pending offer, an offer while the other side's offer is pending, anything after close)
raises InvalidStateError — whatever else is wrong with it — and leaves the connection untouched. -/
theorem illegal_no_effect {pc : Pc} (hinv : Inv pc) (d : Desc) (isLocal : Bool)
    (ht : d.type = .offer ∨ d.type = .answer) (hill : next pc.sig isLocal d.type = none) :
    step pc (if isLocal then .setLocal d else .setRemote d) = (.invalidState, pc) := by
  have hni : d.type ≠ .invalid := by rcases ht with h | h <;> simp [h]
  cases isLocal with
  | true =>
    simp only [if_true, step, setLocal, beq_iff_eq, hni, if_false]
    split
    · rfl
    · simp [applyLocal, validate_eq pc d true hinv ht, hill]
  | false =>
    simp [step, setRemote, hni, validate_eq pc d false hinv ht, hill]

/-- `createAnswer` without a pending remote offer raises InvalidStateError (and never changes anything). -/
theorem createAnswer_illegal {pc : Pc} (hinv : Inv pc) (h : pc.sig ≠ .haveRemoteOffer) :
    step pc .createAnswer = (.invalidState, pc) := by
  have h2 := hinv.no_local_pranswer
  cases hcl : pc.isClosed <;> cases hs : pc.sig <;> simp_all [step, createAnswer]

/-- A description that is legal by state but lacks ICE credentials, rtcp-mux on an RTP section or a
(definite, for an answer) DTLS role, or an answer whose media sections differ from the pending
offer's, raises ValueError and leaves the connection untouched. -/
theorem defective_no_effect {pc : Pc} (hinv : Inv pc) (d : Desc) (isLocal : Bool) (s' : Sig)
    (ht : d.type = .offer ∨ d.type = .answer) (hleg : next pc.sig isLocal d.type = some s')
    (hbad : acceptable d (if isLocal then pc.remoteDescription else pc.localDescription) = false) :
    step pc (if isLocal then .setLocal d else .setRemote d) = (.valueError, pc) := by
  have hni : d.type ≠ .invalid := by rcases ht with h | h <;> simp [h]
  cases isLocal with
  | true =>
    have hcl : pc.isClosed = false := by
      cases h : pc.isClosed with
      | false => rfl
      | true => have := hinv.closed_iff.mp h; rw [this] at hleg; rcases ht with h | h <;> simp [h, next] at hleg
    simp only [if_true] at hbad
    simp [step, setLocal, hni, hcl, applyLocal, validate_eq pc d true hinv ht, hleg, hbad]
  | false =>
    simp only [Bool.false_eq_true, if_false] at hbad
    simp [step, setRemote, hni, validate_eq pc d false hinv ht, hleg, hbad]

/-- A type string that `RTCSessionDescription` rejects: ValueError, nothing changes. -/
theorem invalid_type_no_effect (pc : Pc) (d : Desc) (ht : d.type = .invalid) :
    step pc (.setLocal d) = (.valueError, pc) ∧ step pc (.setRemote d) = (.valueError, pc) := by
  simp [step, setLocal, setRemote, ht]

/-- A legal, acceptable description is applied: no exception, the JSEP successor state, the
description becomes `localDescription` resp. `remoteDescription`, the other one is kept, exactly one
`signalingstatechange` event. -/
theorem legal_applied {pc : Pc} (hinv : Inv pc) (d : Desc) (isLocal : Bool) (s' : Sig)
    (ht : d.type = .offer ∨ d.type = .answer) (hleg : next pc.sig isLocal d.type = some s')
    (hok : acceptable d (if isLocal then pc.remoteDescription else pc.localDescription) = true) :
    let r := step pc (if isLocal then .setLocal d else .setRemote d)
    r.1 = .ok ∧ r.2.sig = s' ∧ r.2.events = pc.events + 1 ∧
      (if isLocal then r.2.localDescription = some d ∧ r.2.remoteDescription = pc.remoteDescription
       else r.2.remoteDescription = some d ∧ r.2.localDescription = pc.localDescription) := by
  have hni : d.type ≠ .invalid := by rcases ht with h | h <;> simp [h]
  cases isLocal with
  | true =>
    have hcl : pc.isClosed = false := by
      cases h : pc.isClosed with
      | false => rfl
      | true => have := hinv.closed_iff.mp h; rw [this] at hleg; rcases ht with h | h <;> simp [h, next] at hleg
    simp only [if_true] at hok
    have hv := validate_eq pc d true hinv ht
    rcases ht with ht | ht <;> cases hs : pc.sig <;> simp [hs, ht, next] at hleg <;> subst hleg <;>
      simp_all [step, setLocal, applyLocal, next, Pc.setSig, Pc.localDescription, Pc.remoteDescription]
  | false =>
    have hcl : pc.isClosed = false := by
      cases h : pc.isClosed with
      | false => rfl
      | true => have := hinv.closed_iff.mp h; rw [this] at hleg; rcases ht with h | h <;> simp [h, next] at hleg
    simp only [Bool.false_eq_true, if_false] at hok
    have hv := validate_eq pc d false hinv ht
    rcases ht with ht | ht <;> cases hs : pc.sig <;> simp [hs, ht, next] at hleg <;> subst hleg <;>
      simp_all [step, setRemote, next, Pc.setSig, Pc.localDescription, Pc.remoteDescription]

/-- `setLocalDescription()` without argument never fails on an open connection. -/
theorem implicit_never_fails {pc : Pc} (hinv : Inv pc) (h : pc.sig ≠ .closed) (km : List (Kind × String)) :
    (step pc (.setLocalImplicit km)).1.verdict = some .ok := by
  have := (step_refines_jsep hinv (.setLocalImplicit km) rfl).1
  rw [this]
  have hp := hinv.remote_offer_present
  simp only [Spec.step, Pc.obs, h, if_false]
  cases hs : pc.sig <;> cases hr : pc.remoteDescription <;> simp_all

/-! ## Closed is absorbing -/

/-- On a closed connection every call of the alphabet except `close` raises (InvalidStateError; ValueError
for a type string that is no type) and `close` returns; none of them changes anything. -/
theorem closed_rejects {pc : Pc} (hinv : Inv pc) (hcl : pc.sig = .closed) (c : Call) (hc : c.inAlphabet = true) :
    (step pc c).2 = pc ∧
      (step pc c).1 = (match c with
        | .close => .ok
        | .setLocal d => if d.type = .invalid then .valueError else .invalidState
        | .setRemote d => if d.type = .invalid then .valueError else .invalidState
        | _ => .invalidState) := by
  have hic := hinv.closed_iff.mpr hcl
  cases c with
  | createOffer km => simp [step, createOffer, hic]
  | createAnswer => simp [step, createAnswer, hic]
  | setLocalImplicit km => simp [step, setLocalImplicit, hic]
  | close => simp [step, close, hic]
  | setLocal d =>
    by_cases hi : d.type = .invalid <;> simp [step, setLocal, hic, hi]
  | setRemote d =>
    simp only [Call.inAlphabet, DType.inAlphabet, Bool.or_eq_true, beq_iff_eq] at hc
    by_cases hi : d.type = .invalid
    · simp [step, setRemote, hi]
    · have ht : d.type = .offer ∨ d.type = .answer := by
        rcases hc with (h | h) | h
        · exact Or.inl h
        · exact Or.inr h
        · exact absurd h hi
      have hn : next pc.sig false d.type = none := by rw [hcl]; rcases ht with h | h <;> simp [h, next]
      simp [step, setRemote, hi, validate_eq pc d false hinv ht, hn]

/-- **Closed is absorbing**: after `close`, no call sequence of the alphabet changes anything. -/
theorem closed_absorbing {pc : Pc} (hinv : Inv pc) (hcl : pc.sig = .closed) (cs : List Call)
    (hcs : ∀ c ∈ cs, c.inAlphabet = true) : (run pc cs).2 = pc := by
  induction cs with
  | nil => rfl
  | cons c cs ih =>
    have h := (closed_rejects hinv hcl c (hcs c (by simp))).1
    simp only [run, h]
    exact ih (fun c' h' => hcs c' (by simp [h']))

/-- `signalingState` stays `closed` under **every** call, also pranswer / rollback descriptions. -/
theorem closed_sig_absorbing {pc : Pc} (hinv : Inv pc) (hcl : pc.sig = .closed) (cs : List Call) :
    (run pc cs).2.sig = .closed := by
  induction cs generalizing pc with
  | nil => exact hcl
  | cons c cs ih =>
    have hic := hinv.closed_iff.mpr hcl
    have hstep : (step pc c).2.sig = .closed := by
      cases c with
      | createOffer km => exact hcl
      | createAnswer => exact hcl
      | setLocal d => by_cases hi : d.type = .invalid <;> simp [step, setLocal, hi, hic, hcl]
      | setLocalImplicit km => simp [step, setLocalImplicit, hic, hcl]
      | close => simp [step, close, hic, hcl]
      | setRemote d =>
        simp only [step, setRemote]
        split
        · exact hcl
        · cases hv : validate pc d false with
          | some e => exact hcl
          | none =>
            cases ht : d.type <;>
              simp_all [validate, validateWith, stateCheck, Pc.setSig]
    exact ih (inv_step hinv c) hstep

/-- `close` closes, from every state, and a second `close` is a no-op. -/
theorem close_closes (pc : Pc) : (step pc .close).1 = .ok ∧ (step pc .close).2.isClosed = true ∧
    (pc.isClosed = false → (step pc .close).2.sig = .closed) ∧ (pc.isClosed = true → (step pc .close).2 = pc) := by
  cases h : pc.isClosed <;> simp [step, close, h, Pc.setSig]

/-! ## Tie of the type validation to the regenerated graph of `RTCSessionDescription` -/

/-- The regenerated graph (Gen/Jsep.lean, obtained by calling the real constructor) is the expected one … -/
theorem session_description_types_const :
    Aiortc.Gen.SESSION_DESCRIPTION_TYPE_ACCEPTED =
      [("offer", true), ("pranswer", true), ("answer", true), ("rollback", true), ("", false), ("Offer", false),
       ("ANSWER", false), ("offer ", false), ("bogus", false), ("closed", false), ("stable", false)] := by decide

/-- … and the model's `DType.ofString` agrees with it: a type string is rejected by the real constructor
exactly when the model treats it as `invalid` (⇒ `ValueError`, no effect: `invalid_type_no_effect`). -/
theorem type_validation_matches_model :
    ∀ p ∈ Aiortc.Gen.SESSION_DESCRIPTION_TYPE_ACCEPTED, (DType.ofString p.1 != .invalid) = p.2 := by decide

/-! ## Witnesses: defect #14 on the unpatched tree, and what lies outside the alphabet -/

def dcMedia (role : Role) : Media := { kind := .application, mid := "0", ufrag := true, pwd := true, role, mux := false }
def offerD : Desc := { id := 1, type := .offer, media := [dcMedia .auto] }
def answerD : Desc := { id := 2, type := .answer, media := [dcMedia .definite] }
def answerNoSetup : Desc := { id := 3, type := .answer, media := [dcMedia .missing] }
def rollbackD : Desc := { id := 4, type := .rollback, media := [dcMedia .auto] }
def haveLocal : Pc := (step Pc.init (.setLocal offerD)).2

/-- Defect #14 (DESIGN.md §4): on the unpatched tree an answer without `a=setup` makes
`__validate_description` raise AttributeError; with fixes/C14-dtls-params-missing.patch it is a ValueError. -/
theorem orig_answer_without_setup_crashes :
    validateWith checkMediaOrig haveLocal answerNoSetup false = some (.crash "AttributeError") ∧
      validate haveLocal answerNoSetup false = some .valueError := by
  decide

/-- Outside the alphabet: a `rollback` (or `pranswer`) description on a closed connection is rejected
with InvalidStateError and changes nothing (since the `fix:` that makes `close()` cancel pending
negotiation; before it, aiortc stored it as the pending remote description). -/
theorem ext_types_rejected_when_closed :
    let closedPc := (step Pc.init .close).2
    (step closedPc (.setRemote rollbackD)).1 = .invalidState ∧
      (step closedPc (.setRemote rollbackD)).2 = closedPc := by
  decide

/-! ## Non-vacuity: the hypotheses are satisfiable and the machine really moves -/

example : Inv haveLocal := inv_step inv_init _
example : haveLocal.sig = .haveLocalOffer ∧ haveLocal.localDescription = some offerD := by decide
/-- a complete offer/answer exchange seen from the offerer, then close, then a rejected call -/
example : (run Pc.init [.createOffer [(.application, "0")], .setLocal offerD, .setRemote answerD, .close, .createOffer []]).1
    = [.created (offerOf [(.application, "0")]), .ok, .ok, .ok, .invalidState] := by decide
example : (run Pc.init [.setLocal offerD, .setRemote answerD]).2.obs = ⟨.stable, some offerD, some answerD⟩ := by decide
/-- the answerer's side with an implicit answer -/
example : (run Pc.init [.setRemote offerD, .setLocalImplicit []]).2.obs = ⟨.stable, some (answerTo offerD), some offerD⟩ := by
  decide
/-- hypotheses of `illegal_no_effect` / `defective_no_effect` / `legal_applied` -/
example : next Pc.init.sig false answerD.type = none := by decide
example : next haveLocal.sig false answerNoSetup.type = some .stable ∧
    acceptable answerNoSetup haveLocal.localDescription = false := by decide
example : next haveLocal.sig false answerD.type = some .stable ∧
    acceptable answerD haveLocal.localDescription = true := by decide
/-- a mismatched answer (other mid) -/
example : acceptable { answerD with media := [{ dcMedia .definite with mid := "09" }] } haveLocal.localDescription = false := by
  decide
example : Call.inAlphabet (.setRemote answerD) = true ∧ Call.inAlphabet (.setRemote rollbackD) = false := by decide

end Aiortc.Props.C14
