import Aiortc.Props.C14
import Aiortc.Model.Jsep.Inherit
import Aiortc.Model.Jsep.Segments
/-!
# C14, part 2 — per-section defects of a description, and calls in flight

1. **Which descriptions are defective** (Model/Jsep/Inherit.lean, the part of `SessionDescription.parse`
   that feeds `__validate_description`): the value in force for an m-section is its own line, else the
   session-level one; no section inherits from another section.  A description in which ANY ONE section
   lacks ICE credentials / a DTLS role / rtcp-mux is rejected with `ValueError` and no effect, wherever the
   section stands and whatever the other sections carry; session-level credentials cover every section
   that does not override them.
2. **Calls in flight** (Model/Jsep/Segments.lean): a call is a sequence of atomic segments between
   `await`s.  `step` is `start` followed at once by `resume` (so every theorem of part 1 is about the
   segment semantics as well); for ANY number of calls in flight under ANY schedule `closed` is absorbing:
   once `close()` has run its first segment nothing modelled changes any more, and a call overtaken by
   `close()` ends with `InvalidStateError` in exactly the public state the JSEP machine gives for
   "`close`, then the call".
-/
namespace Aiortc.Props.C14Flight
open Aiortc.Model.Jsep
open Aiortc.Model.Jsep.Spec (next mediaOk wellFormed matchesOffer acceptable setDesc Verdict St)
open Aiortc.Props.C14

/-! ## 1. Session level / media level, one section at a time -/

theorem resolveAll_eq_map (sess : Level) (ms : List RawMedia) :
    resolveAll sess ms = ms.map (resolveMedia sess) := by
  induction ms with
  | nil => rfl
  | cons m ms ih => simp [resolveAll, ih]

/-- **No leak between sections**: section `i` of what the parser hands to the validator is determined
by the session part and by section `i` of the text alone. -/
theorem resolve_section_local (r : RawDesc) (i : Nat) :
    r.resolve.media[i]? = (r.media[i]?).map (resolveMedia r.sess) := by
  simp [RawDesc.resolve, resolveAll_eq_map]

/-- Two descriptions that agree on the session part and on section `i` agree on the resolved section
`i`, whatever their other sections say. -/
theorem resolve_section_independent (r r' : RawDesc) (i : Nat) (hs : r.sess = r'.sess)
    (hi : r.media[i]? = r'.media[i]?) : r.resolve.media[i]? = r'.resolve.media[i]? := by
  rw [resolve_section_local, resolve_section_local, hs, hi]

/-- Session-level ICE credentials cover every section that does not override them with an empty value;
a session-level `a=setup` covers every section without its own. -/
theorem session_level_covers (r : RawDesc) (hu : r.sess.ufrag = some true) (hp : r.sess.pwd = some true)
    (hm : ∀ m ∈ r.media, m.own.ufrag ≠ some false ∧ m.own.pwd ≠ some false) :
    ∀ m ∈ r.resolve.media, m.ufrag = true ∧ m.pwd = true := by
  intro m hmem
  simp only [RawDesc.resolve, resolveAll_eq_map, List.mem_map] at hmem
  obtain ⟨rm, hrm, rfl⟩ := hmem
  have := hm rm hrm
  cases hou : rm.own.ufrag with
  | none =>
    cases hop : rm.own.pwd with
    | none => simp [resolveMedia, inForce, hu, hp, hou, hop]
    | some b => cases b <;> simp_all [resolveMedia, inForce]
  | some b =>
    cases b
    · simp_all
    · cases hop : rm.own.pwd with
      | none => simp [resolveMedia, inForce, hp, hou, hop]
      | some b => cases b <;> simp_all [resolveMedia, inForce]

theorem session_setup_covers (r : RawDesc) (ro : Role) (hs : r.sess.setup = some ro)
    (hm : ∀ m ∈ r.media, m.own.setup = none) : ∀ m ∈ r.resolve.media, m.role = ro := by
  intro m hmem
  simp only [RawDesc.resolve, resolveAll_eq_map, List.mem_map] at hmem
  obtain ⟨rm, hrm, rfl⟩ := hmem
  simp [resolveMedia, roleInForce, hm rm hrm, hs]

/-- A media-level line covers its own section only: a section without own credentials under a session
part without credentials lacks them, whatever the sections before it carry. -/
theorem media_level_does_not_cover_others (sess : Level) (m : RawMedia)
    (hs : sess.ufrag = none ∨ sess.pwd = none) (ho : m.own.ufrag = none ∧ m.own.pwd = none) :
    m.lacksCredentials sess = true := by
  rcases hs with hs | hs <;> simp [RawMedia.lacksCredentials, inForce, hs, ho.1, ho.2]

/-- What the validator objects to in a resolved section, in terms of the text. -/
theorem mediaOk_resolve (sess : Level) (t : DType) (m : RawMedia) :
    mediaOk t (resolveMedia sess m) =
      (!m.lacksCredentials sess && !m.lacksRole sess t && !m.lacksMux) := by
  simp only [mediaOk, resolveMedia, RawMedia.lacksCredentials, RawMedia.lacksRole, RawMedia.lacksMux]
  cases inForce sess.ufrag m.own.ufrag <;> cases inForce sess.pwd m.own.pwd <;>
    cases roleInForce sess.setup m.own.setup <;> cases t.answerLike <;> cases m.kind.isRtp <;>
    cases m.mux <;> rfl

/-- One defective section anywhere makes the whole description unacceptable. -/
theorem one_defective_section_unacceptable (r : RawDesc) (o : Option Desc) (m : RawMedia) (hm : m ∈ r.media)
    (hbad : m.lacksCredentials r.sess = true ∨ m.lacksRole r.sess r.type = true ∨ m.lacksMux = true) :
    acceptable r.resolve o = false := by
  have h1 : mediaOk r.type (resolveMedia r.sess m) = false := by
    rw [mediaOk_resolve]
    rcases hbad with h | h | h <;> simp [h]
  have h2 : wellFormed r.resolve = false := by
    simp only [wellFormed, RawDesc.resolve, resolveAll_eq_map, List.all_map]
    rw [Bool.eq_false_iff]
    intro hall
    have := (List.all_eq_true.mp hall) m hm
    simp only [Function.comp] at this
    rw [h1] at this
    exact absurd this (by simp)
  simp [acceptable, h2]

/-- **Per-section `defective_no_effect`**: an offer or answer that is legal in the current state and in
which SOME m-section — first, last or in between, alone or together with others — lacks ICE credentials
(at its own level and at session level), a DTLS role (a definite one in an answer) or rtcp-mux raises
`ValueError`, and the connection (signalling state, closed latch, all four descriptions, event count)
is exactly what it was. -/
theorem defective_section_no_effect {pc : Pc} (hinv : Inv pc) (r : RawDesc) (isLocal : Bool) (s' : Sig)
    (ht : r.type = .offer ∨ r.type = .answer) (hleg : next pc.sig isLocal r.type = some s')
    (m : RawMedia) (hm : m ∈ r.media)
    (hbad : m.lacksCredentials r.sess = true ∨ m.lacksRole r.sess r.type = true ∨ m.lacksMux = true) :
    step pc (if isLocal then .setLocal r.resolve else .setRemote r.resolve) = (.valueError, pc) :=
  defective_no_effect hinv r.resolve isLocal s' ht hleg (one_defective_section_unacceptable r _ m hm hbad)

/-- The other direction: if no section lacks anything (and, for an answer, the sections match the
offer), the description is applied (`legal_applied`). -/
theorem no_defective_section_wellFormed (r : RawDesc)
    (hok : ∀ m ∈ r.media, m.lacksCredentials r.sess = false ∧ m.lacksRole r.sess r.type = false ∧ m.lacksMux = false) :
    wellFormed r.resolve = true := by
  simp only [wellFormed, RawDesc.resolve, resolveAll_eq_map, List.all_map, List.all_eq_true]
  intro m hm
  obtain ⟨h1, h2, h3⟩ := hok m hm
  simp only [Function.comp]
  rw [mediaOk_resolve]
  simp [h1, h2, h3]

/-! ## 2. Calls in flight -/

/-- A call awaited on its own (first segment, then at once the second) is the `step` of part 1: all
theorems of `Props/C14.lean` are theorems about the segment semantics. -/
theorem seqStep_eq_step (pc : Pc) (c : Call) : seqStep pc c = step pc c := by
  cases c with
  | createOffer km => rfl
  | createAnswer => rfl
  | close => rfl
  | setLocal d =>
    simp only [seqStep, start, step, setLocal]
    by_cases hi : (d.type == .invalid) = true
    · simp [hi]
    · by_cases hc : pc.isClosed = true
      · simp [hi, hc]
      · simp only [hi, hc, if_false, Bool.false_eq_true]
        unfold startApplyLocal applyLocal
        cases hv : validate pc d true with
        | some e => rfl
        | none =>
          have hc' : pc.isClosed = false := by simpa using hc
          cases ht : d.type <;> simp [resume, Pc.setSig, hc', ht]
  | setLocalImplicit km =>
    simp only [seqStep, start, step, setLocalImplicit]
    by_cases hc : pc.isClosed = true
    · simp [hc]
    · simp only [hc, if_false, Bool.false_eq_true]
      have hc' : pc.isClosed = false := by simpa using hc
      cases hcr : (if (pc.sig == Sig.haveRemoteOffer) = true then createAnswer pc else createOffer pc km) with
      | created d =>
        simp only
        unfold startApplyLocal applyLocal
        cases hv : validate pc d true with
        | some e => rfl
        | none => cases ht : d.type <;> simp [resume, Pc.setSig, hc', ht]
      | ok => rfl
      | invalidState => rfl
      | valueError => rfl
      | crash k => rfl
  | setRemote d =>
    simp only [seqStep, start, step, setRemote]
    by_cases hi : (d.type == .invalid) = true
    · simp [hi]
    · simp only [hi, if_false, Bool.false_eq_true]
      cases hv : validate pc d false with
      | some e => rfl
      | none => rfl

/-- The first segment of any call leaves a closed connection exactly as it is. -/
theorem start_closed (pc : Pc) (h : pc.isClosed = true) (c : Call) : (start pc c).2 = pc := by
  cases c with
  | createOffer km => rfl
  | createAnswer => rfl
  | close => simp [start, close, h]
  | setLocal d =>
    simp only [start]
    split
    · rfl
    · simp
  | setLocalImplicit km => simp [start, h]
  | setRemote d =>
    simp only [start]
    split
    · rfl
    · cases validate pc d false <;> rfl

/-- The second segment of any call, run on a closed connection, raises InvalidStateError and changes
nothing: this is the `__assertNotClosed()` after the `await`. -/
theorem resume_closed (pc : Pc) (h : pc.isClosed = true) (k : Pending) : resume pc k = (.invalidState, pc) := by
  cases k <;> simp [resume, h]

theorem advance_closed (pc : Pc) (h : pc.isClosed = true) (f : Flight) : (f.advance pc).2 = pc := by
  cases f with
  | fresh c =>
    have := start_closed pc h c
    simp only [Flight.advance]
    split <;> simp_all
  | waiting k => simp [Flight.advance, resume_closed pc h k]
  | finished r => rfl

theorem advanceAt_closed (pc : Pc) (h : pc.isClosed = true) (fl : List Flight) (i : Nat) :
    (advanceAt pc fl i).2 = pc := by
  induction fl generalizing i with
  | nil => rfl
  | cons f fs ih =>
    cases i with
    | zero => simp [advanceAt, advance_closed pc h f]
    | succ i => simp [advanceAt, ih i]

/-- **`closed` is absorbing under every interleaving**: with any number of calls in flight (issued
before or after the close, suspended at their `await` or not yet started) and any schedule of their
segments, a closed connection — signalling state, latch, all four descriptions, event count — never
changes again. -/
theorem closed_absorbing_interleaved (pc : Pc) (h : pc.isClosed = true) (fl : List Flight) (sched : List Nat) :
    (runMany pc fl sched).2 = pc := by
  induction sched generalizing fl with
  | nil => rfl
  | cons i sched ih =>
    simp only [runMany]
    rw [advanceAt_closed pc h fl i]
    exact ih _

/-- The closed latch and `signalingState == "closed"` coincide, also between the segments of calls in
flight (the other clauses of `Inv` hold only when no `setLocalDescription` is suspended). -/
def SegInv (pc : Pc) : Prop := pc.isClosed = true ↔ pc.sig = .closed

theorem seginv_of_inv {pc : Pc} (h : Inv pc) : SegInv pc := h.closed_iff

theorem seginv_startApplyLocal {pc : Pc} (h : SegInv pc) (hc : pc.isClosed = false) (d : Desc) :
    SegInv (startApplyLocal pc d).2 := by
  unfold startApplyLocal
  cases hv : validate pc d true with
  | some e => exact h
  | none => cases ht : d.type <;> simp_all [SegInv, Pc.setSig]

theorem seginv_start {pc : Pc} (h : SegInv pc) (c : Call) : SegInv (start pc c).2 := by
  cases c with
  | createOffer km => exact h
  | createAnswer => exact h
  | close =>
    simp only [start, close]
    split
    · exact h
    · simp [SegInv, Pc.setSig]
  | setLocal d =>
    simp only [start]
    split
    · exact h
    · split
      · exact h
      · rename_i _ hc; exact seginv_startApplyLocal h (by simpa using hc) d
  | setLocalImplicit km =>
    simp only [start]
    split
    · exact h
    · rename_i hc
      split
      · exact seginv_startApplyLocal h (by simpa using hc) _
      · exact h
  | setRemote d =>
    simp only [start]
    split
    · exact h
    · cases validate pc d false <;> exact h

theorem seginv_resume {pc : Pc} (h : SegInv pc) (k : Pending) : SegInv (resume pc k).2 := by
  cases k with
  | localStore d =>
    simp only [resume]
    split
    · exact h
    · split <;> exact h
  | remoteApply d =>
    simp only [resume]
    split
    · exact h
    · rename_i hc
      cases ht : d.type <;> simp_all [SegInv, Pc.setSig]

theorem seginv_advance {pc : Pc} (h : SegInv pc) (f : Flight) : SegInv (f.advance pc).2 := by
  cases f with
  | fresh c =>
    have := seginv_start h c
    simp only [Flight.advance]
    split <;> simp_all
  | waiting k => exact seginv_resume h k
  | finished r => exact h

theorem seginv_advanceAt {pc : Pc} (h : SegInv pc) (fl : List Flight) (i : Nat) : SegInv (advanceAt pc fl i).2 := by
  induction fl generalizing i with
  | nil => exact h
  | cons f fs ih =>
    cases i with
    | zero => exact seginv_advance h f
    | succ i => exact ih i

theorem seginv_runMany {pc : Pc} (h : SegInv pc) (fl : List Flight) (sched : List Nat) :
    SegInv (runMany pc fl sched).2 := by
  induction sched generalizing pc fl with
  | nil => exact h
  | cons i sched ih => exact ih (seginv_advanceAt h fl i) _

/-- **Once `close()` has run, forever**: take any state reached with calls in flight, let `close()` run
its first segment; then `signalingState` is `closed`, the descriptions are those present at that
moment, and whatever the calls still in flight (and any calls issued later) do, under any schedule,
nothing of it changes any more. -/
theorem close_then_anything {pc : Pc} (h : SegInv pc) (fl : List Flight) (sched : List Nat) :
    let pc' := (start pc .close).2
    pc'.sig = .closed ∧ pc'.localDescription = pc.localDescription ∧ pc'.remoteDescription = pc.remoteDescription ∧
      (runMany pc' fl sched).2 = pc' := by
  have hcl : (start pc .close).2.isClosed = true := by
    simp only [start, close]; split <;> simp_all
  refine ⟨(seginv_start h .close).mp hcl, ?_, ?_, closed_absorbing_interleaved _ hcl fl sched⟩
  · simp only [start, close]; split <;> simp [Pc.setSig, Pc.localDescription]
  · simp only [start, close]; split <;> simp [Pc.setSig, Pc.remoteDescription]

/-- A call that finishes on a closed connection was rejected (or it is a `close`, or it is a call whose
type string is no type): no call in flight can complete normally after `close()`. -/
theorem waiting_fails_after_close (pc : Pc) (h : pc.isClosed = true) (k : Pending) :
    ((Flight.waiting k).advance pc).1 = .finished .invalidState := by
  simp [Flight.advance, resume_closed pc h k]

/-- The first segment of `setRemoteDescription` changes nothing at all; the first segment of
`setLocalDescription` moves `signalingState` only. -/
theorem start_setRemote_no_effect (pc : Pc) (d : Desc) : (start pc (.setRemote d)).2 = pc := by
  simp only [start]
  split
  · rfl
  · cases validate pc d false <;> rfl

theorem start_descriptions_kept (pc : Pc) (c : Call) :
    (start pc c).2.localDescription = pc.localDescription ∧
      (start pc c).2.remoteDescription = pc.remoteDescription := by
  have hal : ∀ d, (startApplyLocal pc d).2.localDescription = pc.localDescription ∧
      (startApplyLocal pc d).2.remoteDescription = pc.remoteDescription := by
    intro d
    unfold startApplyLocal
    cases validate pc d true with
    | some e => exact ⟨rfl, rfl⟩
    | none => cases d.type <;> simp [Pc.setSig, Pc.localDescription, Pc.remoteDescription]
  cases c with
  | createOffer km => exact ⟨rfl, rfl⟩
  | createAnswer => exact ⟨rfl, rfl⟩
  | close => simp only [start, close]; split <;> simp [Pc.setSig, Pc.localDescription, Pc.remoteDescription]
  | setLocal d =>
    simp only [start]
    split
    · exact ⟨rfl, rfl⟩
    · split
      · exact ⟨rfl, rfl⟩
      · exact hal d
  | setLocalImplicit km =>
    simp only [start]
    split
    · exact ⟨rfl, rfl⟩
    · split
      · exact hal _
      · exact ⟨rfl, rfl⟩
  | setRemote d => rw [start_setRemote_no_effect]; exact ⟨rfl, rfl⟩

/-- **A call overtaken by `close()` refines the JSEP machine as "close, then the call"**: on a
reachable state let a call of the alphabet run its first segment and suspend, let `close()` run, then
resume the call.  It raises InvalidStateError, `close()` returned normally, and the public state
`(signalingState, localDescription, remoteDescription)` is exactly the one the JSEP machine reaches
from the state before by `close` followed by the (then rejected) call. -/
theorem overtaken_by_close_refines_jsep {pc : Pc} (hinv : Inv pc) (c : Call) (hc : c.inAlphabet = true)
    (k : Pending) (pc1 : Pc) (hs : start pc c = (.suspended k, pc1)) :
    let pc2 := (start pc1 .close).2
    (start pc1 .close).1 = .done .ok ∧
      (resume pc2 k).1.verdict = some .invalidState ∧
      [some Verdict.ok, (resume pc2 k).1.verdict] = (Spec.run pc.obs [.close, c]).1.map some ∧
      (resume pc2 k).2.obs = (Spec.run pc.obs [.close, c]).2 := by
  have hseg1 : SegInv pc1 := by have := seginv_start (seginv_of_inv hinv) c; rw [hs] at this; exact this
  have hkeep := start_descriptions_kept pc c
  rw [hs] at hkeep
  have hcl : (start pc1 .close).2.isClosed = true := by
    simp only [start, close]; split <;> simp_all
  have hct := close_then_anything hseg1 [] []
  simp only at hct
  obtain ⟨hsig, hloc, hrem, -⟩ := hct
  have hres := resume_closed _ hcl k
  have hobs : (start pc1 .close).2.obs = ⟨.closed, pc.localDescription, pc.remoteDescription⟩ := by
    simp [Pc.obs, hsig, hloc, hrem, hkeep.1, hkeep.2]
  refine ⟨by simp [start, close]; split <;> rfl, by simp [hres, Res.verdict], ?_, ?_⟩
  · -- the JSEP machine rejects the call after close with InvalidStateError
    cases c with
    | createOffer km => simp [start] at hs
    | createAnswer => simp [start] at hs
    | close => simp [start] at hs
    | setLocalImplicit km => simp [hres, Res.verdict, Spec.run, Spec.step, Pc.obs]
    | setLocal d =>
      have hni : d.type ≠ .invalid := by
        intro h; simp [start, h] at hs
      simp only [Call.inAlphabet, DType.inAlphabet, Bool.or_eq_true, beq_iff_eq] at hc
      rcases hc with (h | h) | h
      · simp [hres, Res.verdict, Spec.run, Spec.step, setDesc, Pc.obs, h, next]
      · simp [hres, Res.verdict, Spec.run, Spec.step, setDesc, Pc.obs, h, next]
      · exact absurd h hni
    | setRemote d =>
      have hni : d.type ≠ .invalid := by
        intro h; simp [start, h] at hs
      simp only [Call.inAlphabet, DType.inAlphabet, Bool.or_eq_true, beq_iff_eq] at hc
      rcases hc with (h | h) | h
      · simp [hres, Res.verdict, Spec.run, Spec.step, setDesc, Pc.obs, h, next]
      · simp [hres, Res.verdict, Spec.run, Spec.step, setDesc, Pc.obs, h, next]
      · exact absurd h hni
  · rw [hres]
    simp only
    rw [hobs]
    cases c with
    | createOffer km => simp [start] at hs
    | createAnswer => simp [start] at hs
    | close => simp [start] at hs
    | setLocalImplicit km => simp [Spec.run, Spec.step, Pc.obs]
    | setLocal d =>
      have hni : d.type ≠ .invalid := by
        intro h; simp [start, h] at hs
      simp only [Call.inAlphabet, DType.inAlphabet, Bool.or_eq_true, beq_iff_eq] at hc
      rcases hc with (h | h) | h
      · simp [Spec.run, Spec.step, setDesc, Pc.obs, h, next]
      · simp [Spec.run, Spec.step, setDesc, Pc.obs, h, next]
      · exact absurd h hni
    | setRemote d =>
      have hni : d.type ≠ .invalid := by
        intro h; simp [start, h] at hs
      simp only [Call.inAlphabet, DType.inAlphabet, Bool.or_eq_true, beq_iff_eq] at hc
      rcases hc with (h | h) | h
      · simp [Spec.run, Spec.step, setDesc, Pc.obs, h, next]
      · simp [Spec.run, Spec.step, setDesc, Pc.obs, h, next]
      · exact absurd h hni

/-! ## Non-vacuity and witnesses -/

def credLevel : Level := { ufrag := some true, pwd := some true, setup := some .auto }
def bareLevel : Level := {}
def rawSec (kind : Kind) (mid : String) (own : Level) : RawMedia := { kind, mid, own, mux := kind.isRtp }

/-- the description of the round-2 seeded change: credentials in the first section only -/
def secondSectionBare : RawDesc :=
  { id := 7, type := .offer, sess := {},
    media := [rawSec .audio "0" credLevel, rawSec .video "1" { setup := some .auto }] }

example : (rawSec .video "1" { setup := some .auto }).lacksCredentials secondSectionBare.sess = true := by decide
example : step Pc.init (.setRemote secondSectionBare.resolve) = (.valueError, Pc.init) := by decide
example : next Pc.init.sig false secondSectionBare.type = some .haveRemoteOffer := by decide
/-- the same sections with the credentials at session level are fine, and the offer is applied -/
example : (step Pc.init (.setRemote { secondSectionBare with sess := credLevel }.resolve)).2.sig = .haveRemoteOffer := by decide
/-- an empty media-level value overrides a good session-level one -/
example : (resolveMedia credLevel (rawSec .audio "0" { ufrag := some false })).ufrag = false := by decide
/-- hypotheses of `session_level_covers` -/
example : ∀ m ∈ ({ secondSectionBare with sess := credLevel } : RawDesc).media,
    m.own.ufrag ≠ some false ∧ m.own.pwd ≠ some false := by decide

/-- `setRemoteDescription(offer)` suspended, `close()` runs, the call resumes: InvalidStateError, closed,
no remote description (the round-2 seeded change made this `ok` / `have-remote-offer`). -/
example : start Pc.init (.setRemote offerD) = (.suspended (.remoteApply offerD), Pc.init) := by decide
example : (race Pc.init (.setRemote offerD) .close [0, 1]).1 = [.finished .invalidState, .finished .ok] ∧
    (race Pc.init (.setRemote offerD) .close [0, 1]).2.obs = ⟨.closed, none, none⟩ := by decide
/-- the same call left alone completes (hypothesis `hs` of `overtaken_by_close_refines_jsep` is satisfiable
and the conclusion is not the only possible outcome) -/
example : (race Pc.init (.setRemote offerD) .close [0, 0, 1]).1 = [.finished .ok, .finished .ok] ∧
    (race Pc.init (.setRemote offerD) .close [0, 0, 1]).2.obs = ⟨.closed, none, some offerD⟩ := by decide
/-- `setLocalDescription(offer)` overtaken by close: its first segment had already moved the state -/
example : (race Pc.init (.setLocal offerD) .close [0, 1, 0]).1 = [.finished .invalidState, .finished .ok] ∧
    (race Pc.init (.setLocal offerD) .close [0, 1, 0]).2.events = 2 := by decide

end Aiortc.Props.C14Flight
