import Aiortc.Props.C14
import Aiortc.Model.Jsep.System
/-!
# C14, round 3 — descriptions that re-use a text the connection already stores; several connections in one process

The theorems of `Props/C14.lean` quantify over descriptions of ARBITRARY content, so they cover a description that is equal to
one the connection stores, or equal to it up to the type label.  This file states those instances explicitly (they are what the
harness now feeds to the real code: the pending offer handed back labelled `answer`, a peer's own offer fed back to it as remote
offer, the same description applied twice, ...) and proves that connections living in one process do not influence each other:
each follows `run` on exactly the calls that name it.
-/
namespace Aiortc.Props.C14Reuse
open Aiortc.Model.Jsep Aiortc.Props.C14
open Aiortc.Model.Jsep.Spec (next acceptable)

/-! ## A rejected call leaves every stored description as it was - type label included -/

/-- Whatever the call, whatever description it carries (in particular one whose text the connection already stores, under any
type): if it raises, `signalingState`, `localDescription` and `remoteDescription` are the same VALUES as before. -/
theorem rejected_call_keeps_descriptions (pc : Pc) (c : Call) (hf : (step pc c).1.failed = true) :
    (step pc c).2.sig = pc.sig ∧ (step pc c).2.localDescription = pc.localDescription ∧
      (step pc c).2.remoteDescription = pc.remoteDescription ∧ (step pc c).2.events = pc.events := by
  rw [failed_call_no_effect pc c hf]; simp

/-- In particular the TYPE of a stored description cannot be changed by a rejected call that carries the same text under another
type (`d.relabel t`), on either side. -/
theorem rejected_relabel_keeps_type (pc : Pc) (d : Desc) (t : DType) (isLocal : Bool)
    (hf : (step pc (if isLocal then .setLocal (d.relabel t) else .setRemote (d.relabel t))).1.failed = true) :
    ((step pc (if isLocal then .setLocal (d.relabel t) else .setRemote (d.relabel t))).2.localDescription.map Desc.type
        = pc.localDescription.map Desc.type) ∧
      ((step pc (if isLocal then .setLocal (d.relabel t) else .setRemote (d.relabel t))).2.remoteDescription.map Desc.type
        = pc.remoteDescription.map Desc.type) := by
  rw [failed_call_no_effect pc _ hf]; simp

/-! ## The instances the harness generates -/

/-- The pending local offer (any description, so also that one) handed back as `answer`, to either call, or fed back as remote
offer: illegal in `have-local-offer` ⇒ InvalidStateError, nothing changes. -/
theorem have_local_offer_rejects_relabelled {pc : Pc} (hinv : Inv pc) (hs : pc.sig = .haveLocalOffer) (d : Desc) :
    step pc (.setLocal (d.relabel .answer)) = (.invalidState, pc) ∧
      step pc (.setRemote (d.relabel .offer)) = (.invalidState, pc) := by
  constructor
  · exact illegal_no_effect hinv (d.relabel .answer) true (Or.inr rfl) (by simp [hs, next, Desc.relabel])
  · exact illegal_no_effect hinv (d.relabel .offer) false (Or.inl rfl) (by simp [hs, next, Desc.relabel])

/-- The pending remote offer handed back as `answer`, or applied locally as `offer`: illegal in `have-remote-offer`. -/
theorem have_remote_offer_rejects_relabelled {pc : Pc} (hinv : Inv pc) (hs : pc.sig = .haveRemoteOffer) (d : Desc) :
    step pc (.setRemote (d.relabel .answer)) = (.invalidState, pc) ∧
      step pc (.setLocal (d.relabel .offer)) = (.invalidState, pc) := by
  constructor
  · exact illegal_no_effect hinv (d.relabel .answer) false (Or.inr rfl) (by simp [hs, next, Desc.relabel])
  · exact illegal_no_effect hinv (d.relabel .offer) true (Or.inl rfl) (by simp [hs, next, Desc.relabel])

/-- In `stable` (fresh or after any number of negotiations) every description labelled `answer` is rejected by both calls. -/
theorem stable_rejects_any_answer {pc : Pc} (hinv : Inv pc) (hs : pc.sig = .stable) (d : Desc) :
    step pc (.setLocal (d.relabel .answer)) = (.invalidState, pc) ∧
      step pc (.setRemote (d.relabel .answer)) = (.invalidState, pc) := by
  constructor
  · exact illegal_no_effect hinv (d.relabel .answer) true (Or.inr rfl) (by simp [hs, next, Desc.relabel])
  · exact illegal_no_effect hinv (d.relabel .answer) false (Or.inr rfl) (by simp [hs, next, Desc.relabel])

/-- The same acceptable offer applied twice in a row (the same object passed twice): both calls succeed, the second changes
nothing but the event count. -/
theorem same_offer_twice {pc : Pc} (hinv : Inv pc) (d : Desc) (isLocal : Bool) (s' : Sig) (ht : d.type = .offer)
    (hleg : next pc.sig isLocal .offer = some s') (hok : Spec.wellFormed d = true) :
    let c : Call := if isLocal then .setLocal d else .setRemote d
    let pc1 := (step pc c).2
    (step pc c).1 = .ok ∧ (step pc1 c).1 = .ok ∧ (step pc1 c).2.obs = pc1.obs ∧ (step pc1 c).2.events = pc.events + 2 := by
  have hacc : ∀ o, acceptable d o = true := by intro o; simp [acceptable, hok, ht]
  have h1 := legal_applied hinv d isLocal s' (Or.inl ht) (ht ▸ hleg) (hacc _)
  have hinv1 : Inv (step pc (if isLocal then .setLocal d else .setRemote d)).2 := inv_step hinv _
  have hs' : next s' isLocal .offer = some s' := by
    cases isLocal <;> cases hs : pc.sig <;> simp [hs, next] at hleg <;> subst hleg <;> rfl
  have h2 := legal_applied hinv1 d isLocal s' (Or.inl ht) (by rw [ht, h1.2.1]; exact hs') (hacc _)
  refine ⟨h1.1, h2.1, ?_, ?_⟩
  · cases isLocal <;> simp_all [Pc.obs]
  · have := h2.2.2.1; have := h1.2.2.1; omega

/-! ## Connections living in one process are independent -/

/-- A call on connection `i` leaves every other connection of the process exactly as it was - whatever the description, also one
that another connection stores. -/
theorem stepAt_frame {pcs : List Pc} {i : Nat} {c : Call} {r : Res × List Pc} (h : stepAt pcs i c = some r)
    (j : Nat) (hj : j ≠ i) : r.2[j]? = pcs[j]? := by
  unfold stepAt at h
  cases hp : pcs[i]? with
  | none => simp [hp] at h
  | some pc =>
    simp [hp] at h
    subst h
    simp [Ne.symm hj]

/-- ... and the connection it names moves as `step` says. -/
theorem stepAt_self {pcs : List Pc} {i : Nat} {c : Call} {r : Res × List Pc} (h : stepAt pcs i c = some r) :
    ∃ pc, pcs[i]? = some pc ∧ r.1 = (step pc c).1 ∧ r.2[i]? = some (step pc c).2 := by
  unfold stepAt at h
  cases hp : pcs[i]? with
  | none => simp [hp] at h
  | some pc =>
    simp [hp] at h
    subst h
    have hi : i < pcs.length := by
      rcases List.getElem?_eq_some_iff.mp hp with ⟨hi, _⟩; exact hi
    exact ⟨pc, rfl, rfl, by simp [hi]⟩

/-- A rejected call leaves the whole process as it was. -/
theorem stepAt_failed {pcs : List Pc} {i : Nat} {c : Call} {r : Res × List Pc} (h : stepAt pcs i c = some r)
    (hf : r.1.failed = true) : r.2 = pcs := by
  unfold stepAt at h
  cases hp : pcs[i]? with
  | none => simp [hp] at h
  | some pc =>
    simp [hp] at h
    subst h
    simp only at hf ⊢
    rw [failed_call_no_effect pc c hf]
    rcases List.getElem?_eq_some_iff.mp hp with ⟨hi, he⟩
    rw [← he]; exact List.set_getElem_self hi

/-- Over any trace of calls on any connections of the process, connection `j` ends where `run` takes it on exactly the calls
that name it: what happens to the other connections (a second pair fed the same texts, ...) is invisible to it.  All theorems of
`Props/C14.lean` therefore hold for every connection of the process. -/
theorem runSys_proj (pcs : List Pc) (cs : List (Nat × Call)) (j : Nat) :
    (runSys pcs cs)[j]? = pcs[j]?.map fun pc => (run pc (callsOf j cs)).2 := by
  induction cs generalizing pcs with
  | nil => cases h : pcs[j]? <;> simp [runSys, callsOf, run, h]
  | cons ic cs ih =>
    obtain ⟨i, c⟩ := ic
    unfold runSys
    cases hst : stepAt pcs i c with
    | none =>
      simp only
      rw [ih]
      have hi : pcs[i]? = none := by
        unfold stepAt at hst
        cases hp : pcs[i]? with
        | none => rfl
        | some pc => simp [hp] at hst
      by_cases hji : i = j
      · subst hji; simp [hi]
      · simp [callsOf, hji]
    | some r =>
      simp only
      rw [ih]
      by_cases hji : i = j
      · subst hji
        obtain ⟨pc, hpc, _, hr⟩ := stepAt_self hst
        simp [hr, hpc, callsOf, run]
      · rw [stepAt_frame hst j (Ne.symm hji)]
        simp [callsOf, hji]

/-- A connection that no call of the trace names does not change. -/
theorem runSys_untouched (pcs : List Pc) (cs : List (Nat × Call)) (j : Nat) (h : ∀ ic ∈ cs, ic.1 ≠ j) :
    (runSys pcs cs)[j]? = pcs[j]? := by
  rw [runSys_proj]
  have : callsOf j cs = [] := by
    simp only [callsOf, List.filterMap_eq_nil_iff]
    intro ic hic; simp [h ic hic]
  cases hp : pcs[j]? <;> simp [this, run]

/-- `closed` is absorbing for every connection of a process, whatever is done to the others. -/
theorem runSys_closed_absorbing (pcs : List Pc) (cs : List (Nat × Call)) (j : Nat) (pc : Pc) (hj : pcs[j]? = some pc)
    (hinv : Inv pc) (hcl : pc.sig = .closed) (hcs : ∀ ic ∈ cs, ic.2.inAlphabet = true) :
    (runSys pcs cs)[j]? = some pc := by
  rw [runSys_proj, hj]
  simp only [Option.map_some, Option.some.injEq]
  apply closed_absorbing hinv hcl
  intro c hc
  simp only [callsOf, List.mem_filterMap] at hc
  obtain ⟨ic, hic, he⟩ := hc
  split at he
  · cases he; exact hcs ic hic
  · cases he

/-! ## Non-vacuity: the seeded scenario and its relatives -/

/-- offerer: the pending offer handed back as "answer" is rejected and `localDescription` is still the OFFER -/
example : step haveLocal (.setLocal (offerD.relabel .answer)) = (.invalidState, haveLocal) ∧
    haveLocal.localDescription.map Desc.type = some .offer := by decide
/-- answerer: the pending remote offer received again labelled "answer" -/
example : let pc := (step Pc.init (.setRemote offerD)).2
    step pc (.setRemote (offerD.relabel .answer)) = (.invalidState, pc) ∧ pc.remoteDescription = some offerD := by decide
/-- the peer's own offer fed back to it as remote offer -/
example : step haveLocal (.setRemote offerD) = (.invalidState, haveLocal) := by decide
/-- hypotheses of `same_offer_twice` -/
example : next Pc.init.sig true .offer = some .haveLocalOffer ∧ Spec.wellFormed offerD = true ∧ offerD.type = .offer := by decide
example : (run Pc.init [.setLocal offerD, .setLocal offerD]).2.obs = ⟨.haveLocalOffer, some offerD, none⟩ := by decide
/-- two pairs in one process: pair B (connections 2, 3) is fed pair A's offer under both labels; pair A does not notice -/
example : let sys := runSys (List.replicate 4 Pc.init) [(0, .setLocal offerD), (1, .setRemote offerD)]
    runSys sys [(3, .setRemote offerD), (3, .setRemote (offerD.relabel .answer)), (2, .setLocal (offerD.relabel .answer)),
                (2, .setLocal offerD), (2, .close)] = [sys[0]!, sys[1]!, (step haveLocal .close).2, sys[1]!] := by decide

end Aiortc.Props.C14Reuse
