import Aiortc.Model.Rate
import Aiortc.Lemmas.RateCounter
namespace Aiortc.Props.C15
open Aiortc Aiortc.Model.Rate Aiortc.Model.Rate.Aimd

/-! ## AimdRateControl: structure lemmas -/

theorem updateWith_some {fl : AimdFloats} {a : Aimd} {u : Usage} {est : Option Int} {now : Int}
    {a' : Aimd} {v : Int} (h : updateWith fl a u est now = .ok (a', some v)) :
    ∃ a4 nb f15,
      bitrateStep fl (effective (stateStep (initStep a est now) u now) est).1
          (effective (stateStep (initStep a est now) u now) est).2 now = .ok (a4, nb) ∧
      fl.int15 (effective (stateStep (initStep a est now) u now) est).2 = .ok f15 ∧
      v = clamp a4.current nb f15 ∧ a' = { a4 with current := v } := by
  unfold updateWith at h
  simp only [] at h
  split at h
  · cases h
  · split at h
    · rename_i a4 nb hb
      split at h
      · rename_i f15 hf
        injection h with h
        injection h with h1 h2
        injection h2 with h2
        exact ⟨a4, nb, f15, hb, hf, h2.symm, by rw [← h1, h2]⟩
      all_goals cases h
    all_goals cases h
theorem bitrateStep_fields {fl : AimdFloats} {a : Aimd} {m now : Int} {a4 : Aimd} {nb : Int}
    (h : bitrateStep fl a m now = .ok (a4, nb)) :
    a4.current = a.current ∧ a4.rtt = a.rtt ∧ a4.latest = a.latest ∧ a4.initialized = a.initialized ∧
      a4.firstTime = a.firstTime := by
  unfold bitrateStep at h
  repeat' (first | split at h | (dsimp only at h; split at h))
  all_goals (cases h <;> simp)

theorem bitrateStep_hold {fl : AimdFloats} {a : Aimd} {m now : Int} {a4 : Aimd} {nb : Int}
    (hs : a.state = .hold) (h : bitrateStep fl a m now = .ok (a4, nb)) : a4 = a ∧ nb = a.current := by
  unfold bitrateStep at h
  rw [hs] at h
  split at h
  · simp only at h
    injection h with h; injection h with h1 h2
    exact ⟨h1.symm, h2.symm⟩
  all_goals cases h

theorem bitrateStep_decrease {fl : AimdFloats} {a : Aimd} {m now : Int} {a4 : Aimd} {nb : Int}
    (hs : a.state = .decrease) (h : bitrateStep fl a m now = .ok (a4, nb)) :
    fl.round85 m = .ok nb ∧ a4.state = .hold ∧ a4.lastChange = some now ∧ a4.nearMax = true := by
  unfold bitrateStep at h
  rw [hs] at h
  repeat' (first | split at h | (dsimp only at h; split at h))
  all_goals (cases h <;> simp_all)

theorem bitrateStep_increase {fl : AimdFloats} {a : Aimd} {m now : Int} {a4 : Aimd} {nb : Int}
    (hs : a.state = .increase) (h : bitrateStep fl a m now = .ok (a4, nb)) :
    a4.state = .increase ∧ a4.lastChange = some now ∧
    ∃ inc, nb = a.current + inc ∧
      ((a4.nearMax = true ∧ additiveInc fl a.lastChange now a.current a.rtt = .ok inc) ∨
       (a4.nearMax = false ∧ fl.multInc a.current a.lastChange now = .ok inc)) := by
  unfold bitrateStep at h
  rw [hs] at h
  split at h
  · simp only at h
    split at h
    · rename_i nm avg hc
      split at h
      · rename_i inc hinc
        injection h with h; injection h with h1 h2; subst h1; subst h2
        refine ⟨rfl, rfl, inc, rfl, ?_⟩
        cases nm
        · right; simpa using hinc
        · left; simpa using hinc
      all_goals cases h
    all_goals cases h
  all_goals cases h

/-- the literal numbers of the property text are the regenerated constants of the working tree -/
theorem rate_const :
    Gen.RATE_WINDOW_MS = 1000 ∧ Gen.RATE_SCALE = 8000 ∧ Gen.RATE_CLAMP_OFFSET = 10000 ∧
    Gen.RATE_FEEDBACK_INTERVAL_MS = 500 ∧ Gen.RATE_INITIAL_BITRATE = 30000000 ∧
    Gen.RATE_INITIAL_THROUGHPUT = 30000000 ∧ Gen.RATE_RTT_MS = 200 := by decide

theorem clamp_le_cap (cur nb f15 : Int) : clamp cur nb f15 ≤ max (f15 + 10000) cur := by
  unfold clamp; simp only [Gen.RATE_CLAMP_OFFSET]; omega

theorem clamp_le_new (cur nb f15 : Int) : clamp cur nb f15 ≤ nb := by
  unfold clamp; simp only [Gen.RATE_CLAMP_OFFSET]; omega

theorem effective_snd (a : Aimd) (est : Option Int) : (effective a est).2 = est.getD a.latest := by
  cases est <;> rfl

theorem effective_fst_fields (a : Aimd) (est : Option Int) :
    (effective a est).1.current = a.current ∧ (effective a est).1.state = a.state ∧
    (effective a est).1.lastChange = a.lastChange ∧ (effective a est).1.rtt = a.rtt := by
  cases est <;> simp [effective]

theorem stateStep_current (a : Aimd) (u : Usage) (now : Int) :
    (stateStep a u now).current = a.current ∧ (stateStep a u now).latest = a.latest ∧
    (stateStep a u now).rtt = a.rtt := by
  unfold stateStep; repeat' split
  all_goals simp

theorem stateStep_overusing (a : Aimd) (now : Int) : (stateStep a .overusing now).state = .decrease := by
  unfold stateStep; simp

theorem initStep_fields (a : Aimd) (est : Option Int) (now : Int) :
    (initStep a est now).latest = a.latest ∧ (initStep a est now).rtt = a.rtt ∧
    (initStep a est now).state = a.state ∧ (initStep a est now).lastChange = a.lastChange := by
  unfold initStep; repeat' split
  all_goals simp

theorem initStep_current (a : Aimd) (est : Option Int) (now : Int) :
    (initStep a est now).current = a.current ∨ est = some (initStep a est now).current := by
  unfold initStep; repeat' split
  all_goals simp

/-! ## AimdRateControl: the property clauses

`m` is the throughput the update works with: the measured rate passed in, or the latest measured one when
`RateCounter.rate` returned `None`.  All theorems hold for every family `fl` of float helpers. -/

/-- **Cap.** Whatever the float helpers compute, a reported estimate is at most
`max(int(1.5·m) + 10000, previous estimate, m)` and becomes the new `current_bitrate`. -/
theorem update_cap {fl : AimdFloats} {a : Aimd} {u : Usage} {est : Option Int} {now : Int}
    {a' : Aimd} {v : Int} (h : updateWith fl a u est now = .ok (a', some v)) :
    ∃ f15, fl.int15 (est.getD a.latest) = .ok f15 ∧
      v ≤ max (f15 + 10000) (max a.current (est.getD a.latest)) ∧ a'.current = v := by
  obtain ⟨a4, nb, f15, hb, hf, hv, ha⟩ := updateWith_some h
  have e2 := effective_snd (stateStep (initStep a est now) u now) est
  have hl : (stateStep (initStep a est now) u now).latest = a.latest := by
    rw [(stateStep_current _ _ _).2.1, (initStep_fields _ _ _).1]
  rw [e2, hl] at hf
  refine ⟨f15, hf, ?_, by rw [ha]⟩
  have hc : a4.current = (initStep a est now).current := by
    rw [(bitrateStep_fields hb).1, (effective_fst_fields _ _).1, (stateStep_current _ _ _).1]
  have hcap := clamp_le_cap a4.current nb f15
  rw [← hv, hc] at hcap
  rcases initStep_current a est now with h1 | h1
  · rw [h1] at hcap; omega
  · generalize (initStep a est now).current = c at h1 hcap
    subst h1
    simp only [Option.getD_some]
    omega

/-- **"An estimate never rises above 1.5 × the latest measured incoming bitrate + 10 kbit/s"**, with the
literal numbers of the property; the only float fact used is `int(1.5·m) ≤ ⌊3m/2⌋` (stated as a hypothesis
on the value the helper returned). -/
theorem update_never_rises_above {fl : AimdFloats} {a : Aimd} {u : Usage} {est : Option Int} {now : Int}
    {a' : Aimd} {v : Int} (h : updateWith fl a u est now = .ok (a', some v))
    (hm : 0 ≤ est.getD a.latest)
    (h15 : ∀ f, fl.int15 (est.getD a.latest) = .ok f → f ≤ 3 * (est.getD a.latest) / 2) :
    v ≤ max (3 * (est.getD a.latest) / 2 + 10000) a.current ∧
    (a.current < v → 2 * v ≤ 3 * (est.getD a.latest) + 20000) := by
  obtain ⟨f15, hf, hv, _⟩ := update_cap h
  have := h15 f15 hf
  constructor <;> omega

/-- **Over-use always reports, and cuts.** With `OVERUSING` the controller never waits (`None`), and the
reported value is at most `round(0.85·m)`. -/
theorem update_overuse_cut {fl : AimdFloats} {a : Aimd} {est : Option Int} {now : Int}
    {a' : Aimd} {r : Option Int} (h : updateWith fl a .overusing est now = .ok (a', r)) :
    ∃ v r85, r = some v ∧ fl.round85 (est.getD a.latest) = .ok r85 ∧ v ≤ r85 := by
  cases r with
  | none =>
    exfalso
    unfold updateWith at h
    simp only [] at h
    split at h
    · rename_i hc; simp at hc
    · repeat' split at h
      all_goals cases h
  | some v =>
    obtain ⟨a4, nb, f15, hb, hf, hv, ha⟩ := updateWith_some h
    have e2 := effective_snd (stateStep (initStep a est now) .overusing now) est
    have hl : (stateStep (initStep a est now) .overusing now).latest = a.latest := by
      rw [(stateStep_current _ _ _).2.1, (initStep_fields _ _ _).1]
    have hs : (effective (stateStep (initStep a est now) .overusing now) est).1.state = .decrease := by
      rw [(effective_fst_fields _ _).2.1, stateStep_overusing]
    obtain ⟨h85, _⟩ := bitrateStep_decrease hs hb
    rw [e2, hl] at h85
    exact ⟨v, nb, rfl, h85, by rw [hv]; exact clamp_le_new _ _ _⟩

/-- **"on detected over-use it is cut to at most 85 % of that measurement"** with the literal numbers;
float fact used: `round(0.85·m) ≤ 0.85·m + 1`. -/
theorem update_overuse_85 {fl : AimdFloats} {a : Aimd} {est : Option Int} {now : Int}
    {a' : Aimd} {v : Int} (h : updateWith fl a .overusing est now = .ok (a', some v))
    (h85 : ∀ r, fl.round85 (est.getD a.latest) = .ok r → 100 * r ≤ 85 * (est.getD a.latest) + 100) :
    100 * v ≤ 85 * (est.getD a.latest) + 100 := by
  obtain ⟨v', r85, hr, hf, hv⟩ := update_overuse_cut h
  cases hr
  have := h85 r85 hf
  omega

/-- **Over-use cuts to exactly `round(0.85·m)`** — the value the harness oracle recomputes from the inputs and
compares with the reported estimate: the clamp cannot bind when `round(0.85·m) ≤ int(1.5·m) + 10000`
(a float fact for `m ≥ 0`, checked by `misc:hyp` on every run).  With `update_overuse_cut` this says that an
over-use report reveals the measurement the controller worked with. -/
theorem update_overuse_exact {fl : AimdFloats} {a : Aimd} {est : Option Int} {now : Int}
    {a' : Aimd} {v : Int} (h : updateWith fl a .overusing est now = .ok (a', some v))
    (hle : ∀ r f, fl.round85 (est.getD a.latest) = .ok r → fl.int15 (est.getD a.latest) = .ok f → r ≤ f + 10000) :
    fl.round85 (est.getD a.latest) = .ok v := by
  obtain ⟨a4, nb, f15, hb, hf, hv, _⟩ := updateWith_some h
  have e2 := effective_snd (stateStep (initStep a est now) .overusing now) est
  have hl : (stateStep (initStep a est now) .overusing now).latest = a.latest := by
    rw [(stateStep_current _ _ _).2.1, (initStep_fields _ _ _).1]
  have hs : (effective (stateStep (initStep a est now) .overusing now) est).1.state = .decrease := by
    rw [(effective_fst_fields _ _).2.1, stateStep_overusing]
  obtain ⟨h85, _⟩ := bitrateStep_decrease hs hb
  rw [e2, hl] at h85 hf
  have hn := hle nb f15 h85 hf
  have : v = nb := by
    rw [hv]; unfold clamp; simp only [Gen.RATE_CLAMP_OFFSET]; omega
  rw [this]; exact h85

/-- **Every update that reports records the measurement it was given as the latest one — a measurement of
exactly 0 bit/s (only empty packets in the window) included** — and an update without a measurement
(`RateCounter.rate` returned `None`) keeps the latest one.  Together with `update_cap` /
`update_overuse_cut` (whose `m` is `est.getD a.latest`): the bounds always refer to the latest measurement. -/
theorem update_records_measurement {fl : AimdFloats} {a : Aimd} {u : Usage} {est : Option Int} {now : Int}
    {a' : Aimd} {v : Int} (h : updateWith fl a u est now = .ok (a', some v)) :
    a'.latest = est.getD a.latest := by
  obtain ⟨a4, nb, f15, hb, _, _, ha⟩ := updateWith_some h
  have hl : (stateStep (initStep a est now) u now).latest = a.latest := by
    rw [(stateStep_current _ _ _).2.1, (initStep_fields _ _ _).1]
  rw [ha]
  show a4.latest = _
  rw [(bitrateStep_fields hb).2.2.1]
  cases est with
  | none => simpa [effective] using hl
  | some m => simp [effective]

/-! ### the division by zero of `_near_max_rate_increase` (DESIGN.md §4 row 16) -/

/-- On the pinned tree `packets_per_frame = math.ceil(…)` is 0 whenever `current_bitrate` is 0 and the
division `bits_per_frame / packets_per_frame` raises: for any float helpers that report 0 packets. -/
theorem nearMaxInc_unfixed_zero_division (fl : AimdFloats) (cur rtt : Int) (bpf : Float)
    (h : fl.framePackets cur = .ok (bpf, 0)) :
    nearMaxIncUnfixed fl cur rtt = .crash "ZeroDivisionError" := by
  unfold nearMaxIncUnfixed; rw [h]; rfl

/-- With `fixes/C15-near-max-zero-division.patch` (`max(1, math.ceil(…))`) both integer divisors are
non-zero: the function is exactly the float tail applied to a packet count ≥ 1. -/
theorem nearMaxInc_no_zero_division (fl : AimdFloats) (cur rtt : Int) (bpf : Float) (p : Int)
    (h : fl.framePackets cur = .ok (bpf, p)) (hr : 0 ≤ rtt) :
    nearMaxInc fl cur rtt = (fl.nearMaxTail bpf (max 1 p) (rtt + 100)).bind (fun q => .ok (max 4000 q))
      ∧ 1 ≤ max 1 p := by
  unfold nearMaxInc; rw [h]
  simp only []
  rw [if_neg (by omega), if_neg (by omega)]
  refine ⟨?_, by omega⟩
  cases fl.nearMaxTail bpf (max 1 p) (rtt + 100) <;> rfl

/-! ### invariant, non-negative estimates, totality of the integer control flow -/

/-- Invariant of the controller at time `t` (the time of the latest `update`). -/
structure AInv (a : Aimd) (t : Int) : Prop where
  cur : 0 ≤ a.current
  latest : 0 ≤ a.latest
  rtt : 0 ≤ a.rtt
  inc : a.state = .increase → ∃ l, a.lastChange = some l
  last : ∀ l, a.lastChange = some l → l ≤ t
  notDec : a.state ≠ .decrease

theorem ainv_new (t : Int) : AInv Aimd.new t := by
  refine ⟨(by decide), (by decide), (by decide), ?_, ?_, (by decide)⟩
  · intro h; cases h
  · intro l h; cases h

theorem updateWith_none {fl : AimdFloats} {a : Aimd} {u : Usage} {est : Option Int} {now : Int}
    {a' : Aimd} (h : updateWith fl a u est now = .ok (a', none)) : a' = initStep a est now := by
  unfold updateWith at h
  simp only [] at h
  split at h
  · cases h; rfl
  · repeat' split at h
    all_goals cases h

/-- an update that does not report (waiting for initialisation) leaves the latest measurement untouched -/
theorem update_wait_keeps_latest {fl : AimdFloats} {a : Aimd} {u : Usage} {est : Option Int} {now : Int}
    {a' : Aimd} (h : updateWith fl a u est now = .ok (a', none)) : a'.latest = a.latest := by
  rw [updateWith_none h]; exact (initStep_fields a est now).1

theorem stateStep_state (a : Aimd) (u : Usage) (now : Int) :
    ((stateStep a u now).state = .increase → ∃ l, (stateStep a u now).lastChange = some l ∨ a.state = .increase) ∧
    ((stateStep a u now).lastChange = a.lastChange ∨ (stateStep a u now).lastChange = some now) := by
  unfold stateStep; repeat' split
  all_goals simp_all

theorem stateStep_increase_last (a : Aimd) (u : Usage) (now : Int)
    (hi : a.state = .increase → ∃ l, a.lastChange = some l)
    (h : (stateStep a u now).state = .increase) : ∃ l, (stateStep a u now).lastChange = some l := by
  unfold stateStep at h ⊢
  split
  · exact ⟨now, rfl⟩
  · rename_i h1; rw [if_neg h1] at h
    split
    · rename_i h2; rw [if_pos h2] at h; cases h
    · rename_i h2; rw [if_neg h2] at h
      split
      · rename_i h3; rw [if_pos h3] at h; cases h
      · rename_i h3; rw [if_neg h3] at h; exact hi h

theorem nearMaxInc_ge {fl : AimdFloats} {cur rtt r : Int} (h : nearMaxInc fl cur rtt = .ok r) : 4000 ≤ r := by
  unfold nearMaxInc at h
  repeat' (first | split at h | (dsimp only at h; split at h))
  all_goals (cases h <;> omega)

/-- Float facts about signs, true of the real helpers (`int(max(x, 1000))`, `round(0.85·m)` for `m ≥ 0`,
`int(x / 1000)` for `x ≥ 0`); hypotheses of `update_nonneg`. -/
structure SignFacts (fl : AimdFloats) : Prop where
  r85 : ∀ m r, 0 ≤ m → fl.round85 m = .ok r → 0 ≤ r
  mul : ∀ nb l n x, fl.multInc nb l n = .ok x → 0 ≤ x
  sc : ∀ x y, 0 ≤ x → fl.scale1000 x = .ok y → 0 ≤ y

/-- **Estimates are non-negative integers**, and the invariant is kept: for non-negative measurements and
non-decreasing times. -/
theorem update_nonneg {fl : AimdFloats} (sf : SignFacts fl) {a : Aimd} {u : Usage} {est : Option Int}
    {t now : Int} {a' : Aimd} {r : Option Int} (inv : AInv a t) (ht : t ≤ now)
    (hest : ∀ m, est = some m → 0 ≤ m) (h : updateWith fl a u est now = .ok (a', r)) :
    AInv a' now ∧ ∀ v, r = some v → 0 ≤ v := by
  have hi := initStep_fields a est now
  have hic : 0 ≤ (initStep a est now).current := by
    rcases initStep_current a est now with h1 | h1
    · rw [h1]; exact inv.cur
    · exact hest _ h1
  cases r with
  | none =>
    rw [updateWith_none h]
    refine ⟨⟨hic, (by rw [hi.1]; exact inv.latest), (by rw [hi.2.1]; exact inv.rtt), ?_, ?_, ?_⟩, (by intro v hv; cases hv)⟩
    · rw [hi.2.2.1, hi.2.2.2]; exact inv.inc
    · rw [hi.2.2.2]; intro l hl; have := inv.last l hl; omega
    · rw [hi.2.2.1]; exact inv.notDec
  | some v =>
    obtain ⟨a4, nb, f15, hb, hf, hv, ha⟩ := updateWith_some h
    -- the state on which bitrateStep runs
    generalize ha1 : initStep a est now = a1 at *
    generalize ha2 : stateStep a1 u now = a2 at *
    have hs2 := stateStep_current a1 u now
    have hs2' := stateStep_state a1 u now
    rw [ha2] at hs2 hs2'
    have hinc2 : a2.state = .increase → ∃ l, a2.lastChange = some l := by
      rw [← ha2]; apply stateStep_increase_last
      rw [hi.2.2.1, hi.2.2.2]; exact inv.inc
    have hlast2 : ∀ l, a2.lastChange = some l → l ≤ now := by
      intro l hl
      rcases hs2'.2 with h1 | h1
      · rw [h1, hi.2.2.2] at hl; have := inv.last l hl; omega
      · rw [h1] at hl; cases hl; omega
    have he := effective_fst_fields a2 est
    have hm : 0 ≤ (effective a2 est).2 := by
      rw [effective_snd]
      cases est with
      | none => simp only [Option.getD_none]; rw [hs2.2.1, hi.1]; exact inv.latest
      | some m => exact hest m rfl
    have hl3 : 0 ≤ (effective a2 est).1.latest := by
      cases est with
      | none => simp only [effective]; rw [hs2.2.1, hi.1]; exact inv.latest
      | some m => simp only [effective]; exact hest m rfl
    generalize ha3 : (effective a2 est).1 = a3 at *
    generalize hm3 : (effective a2 est).2 = m at *
    have hf4 := bitrateStep_fields hb
    have hc3 : 0 ≤ a3.current := by rw [he.1, hs2.1]; exact hic
    have hr3 : 0 ≤ a3.rtt := by rw [he.2.2.2, hs2.2.2, hi.2.1]; exact inv.rtt
    -- new bitrate is non-negative, and the shape of a4
    have key : 0 ≤ nb ∧ a4.state ≠ .decrease ∧ (a4.state = .increase → ∃ l, a4.lastChange = some l) ∧
        (∀ l, a4.lastChange = some l → l ≤ now) := by
      cases hst : a3.state with
      | hold =>
        obtain ⟨e1, e2⟩ := bitrateStep_hold hst hb
        subst e1
        refine ⟨(by rw [e2]; exact hc3), (by rw [hst]; decide), (by rw [hst]; intro hh; cases hh), ?_⟩
        rw [he.2.2.1]; exact hlast2
      | decrease =>
        obtain ⟨e1, e2, e3, _⟩ := bitrateStep_decrease hst hb
        refine ⟨sf.r85 m nb hm e1, (by rw [e2]; decide), (by rw [e2]; intro hh; cases hh), ?_⟩
        rw [e3]; intro l hl; cases hl; omega
      | increase =>
        obtain ⟨e1, e2, inc, e3, e4⟩ := bitrateStep_increase hst hb
        refine ⟨?_, (by rw [e1]; decide), fun _ => ⟨now, e2⟩, (by rw [e2]; intro l hl; cases hl; omega)⟩
        have hinc : 0 ≤ inc := by
          rcases e4 with ⟨_, e4⟩ | ⟨_, e4⟩
          · unfold additiveInc at e4
            split at e4
            · cases e4
            · rename_i l hl
              split at e4
              · rename_i q hq
                have h4 := nearMaxInc_ge hq
                have hll : l ≤ now := hlast2 l (by rw [← he.2.2.1]; exact hl)
                exact sf.sc _ _ (Int.mul_nonneg (by omega) (by omega)) e4
              all_goals cases e4
          · exact sf.mul _ _ _ _ e4
        omega
    have hv0 : 0 ≤ v := by
      rw [hv]; unfold clamp; simp only [Gen.RATE_CLAMP_OFFSET]
      have : 0 ≤ a4.current := by rw [hf4.1]; exact hc3
      omega
    refine ⟨?_, by intro v' hv'; cases hv'; exact hv0⟩
    subst ha
    exact ⟨hv0, (by show 0 ≤ a4.latest; rw [hf4.2.2.1]; exact hl3),
           (by show 0 ≤ a4.rtt; rw [hf4.2.1]; exact hr3), key.2.2.1, key.2.2.2, key.2.1⟩

/-- "Every float helper call that `update` performs on this input succeeds" (finite operands), spelled
out call by call for the state `a` on which the bitrate step runs. -/
def FloatsOk (fl : AimdFloats) (a : Aimd) (m now : Int) : Prop :=
  ∃ kbps, fl.kbpsOf m = .ok kbps ∧ (∃ f, fl.int15 m = .ok f) ∧
    (a.state = .decrease →
      (∃ x, fl.decreaseMax a.avgMax a.varMax kbps = .ok x) ∧ (∃ r, fl.round85 m = .ok r)) ∧
    (a.state = .increase →
      ∃ nm avg, fl.increaseClear a.nearMax a.avgMax a.varMax kbps = .ok (nm, avg) ∧
        (nm = false → ∃ x, fl.multInc a.current a.lastChange now = .ok x) ∧
        (nm = true → ∃ bpf p q, fl.framePackets a.current = .ok (bpf, p) ∧
            fl.nearMaxTail bpf (max 1 p) (a.rtt + 100) = .ok q ∧
            ∀ l, a.lastChange = some l → ∃ x, fl.scale1000 ((now - l) * max 4000 q) = .ok x))

theorem bitrateStep_total {fl : AimdFloats} {a : Aimd} {m now : Int}
    (hinc : a.state = .increase → ∃ l, a.lastChange = some l) (hr : 0 ≤ a.rtt)
    (ok : FloatsOk fl a m now) : ∃ a4 nb, bitrateStep fl a m now = .ok (a4, nb) := by
  obtain ⟨kbps, hk, _, hdec, hup⟩ := ok
  unfold bitrateStep
  rw [hk]
  cases hst : a.state with
  | hold => exact ⟨_, _, rfl⟩
  | decrease =>
    obtain ⟨⟨x, hx⟩, ⟨r, hr85⟩⟩ := hdec hst
    simp only [hx, hr85]
    exact ⟨_, _, rfl⟩
  | increase =>
    obtain ⟨nm, avg, hc, hmul, hadd⟩ := hup hst
    obtain ⟨l, hl⟩ := hinc hst
    simp only [hc]
    cases nm with
    | false =>
      obtain ⟨x, hx⟩ := hmul rfl
      simp only [hx, Bool.false_eq_true, if_false]
      exact ⟨_, _, rfl⟩
    | true =>
      obtain ⟨bpf, p, q, hfp, htail, hsc⟩ := hadd rfl
      obtain ⟨x, hx⟩ := hsc l hl
      have hnm : nearMaxInc fl a.current a.rtt = .ok (max 4000 q) := by
        unfold nearMaxInc; rw [hfp]
        simp only []
        rw [if_neg (by omega), if_neg (by omega), htail]
      have hadd' : additiveInc fl a.lastChange now a.current a.rtt = .ok x := by
        unfold additiveInc; rw [hl]; simp only [hnm]; exact hx
      simp only [hadd', if_true]
      exact ⟨_, _, rfl⟩

/-- **The integer control flow of `update` cannot fail** (with the fix): if every float helper call it
makes returns a value, `update` returns normally — no division by zero in `_near_max_rate_increase`, no
`None - int` in `_additive_rate_increase`, whatever the history that led to the state (`AInv`). -/
theorem update_total {fl : AimdFloats} {a : Aimd} {u : Usage} {est : Option Int} {t now : Int}
    (inv : AInv a t)
    (ok : FloatsOk fl (effective (stateStep (initStep a est now) u now) est).1
            (effective (stateStep (initStep a est now) u now) est).2 now) :
    ∃ a' r, updateWith fl a u est now = .ok (a', r) := by
  have hi := initStep_fields a est now
  have he := effective_fst_fields (stateStep (initStep a est now) u now) est
  have hinc : (effective (stateStep (initStep a est now) u now) est).1.state = .increase →
      ∃ l, (effective (stateStep (initStep a est now) u now) est).1.lastChange = some l := by
    rw [he.2.1, he.2.2.1]
    apply stateStep_increase_last
    rw [hi.2.2.1, hi.2.2.2]; exact inv.inc
  have hr : 0 ≤ (effective (stateStep (initStep a est now) u now) est).1.rtt := by
    rw [he.2.2.2, (stateStep_current _ _ _).2.2, hi.2.1]; exact inv.rtt
  obtain ⟨a4, nb, hb⟩ := bitrateStep_total hinc hr ok
  obtain ⟨_, _, ⟨f, hf⟩, _⟩ := ok
  unfold updateWith
  simp only []
  split
  · exact ⟨_, _, rfl⟩
  · simp only [hb, hf]
    exact ⟨_, _, rfl⟩

/-! ## RateCounter: the window is exactly the last `window_size` ms

`H` is the list of samples `(time, value)` added since the constructor / last `reset()`, `last` the time of
the latest `add` / `rate` call.  `inWindow W last t` is `last - W < t ≤ last`. -/

def inWindow (W : Nat) (last t : Int) : Bool := decide (last - W < t) && decide (t ≤ last)

/-- The invariant tying a counter to its history. -/
def Inv (rc : RateCounter) (H : List Sample) (last : Int) : Prop :=
  (Fresh rc ∧ H = []) ∨
  ∃ o, Core rc o H ∧ o ≤ last ∧ last < o + rc.window ∧ (∀ s ∈ H, s.1 ≤ last) ∧
    (∀ s ∈ H, o ≤ s.1 ∨ s.1 + rc.window ≤ last)

theorem counter_new_inv (W : Nat) (scale : Int) (hW : 0 < W) (t : Int) :
    Inv (RateCounter.new W scale) [] t := Or.inl ⟨fresh_new W scale hW, rfl⟩

theorem counter_reset_inv (rc : RateCounter) (hW : 0 < rc.window) (t : Int) : Inv rc.reset [] t :=
  Or.inl ⟨fresh_reset rc hW, rfl⟩

theorem inv_window_pos {rc : RateCounter} {H : List Sample} {last : Int} (inv : Inv rc H last) :
    0 < rc.window := by
  rcases inv with ⟨f, _⟩ | ⟨o, c, _⟩
  · exact f.wpos
  · exact c.wpos

/-- `_origin_ms` after `_erase_old(now)` (or after `add` sets it on a fresh counter). -/
def originAfter (rc : RateCounter) (now : Int) : Int :=
  match rc.originMs with
  | none => now
  | some o => max o (now - rc.window + 1)

/-- **`add` never raises and keeps the invariant**, for any value and any `now ≥ last`. -/
theorem counter_add_ok {rc : RateCounter} {H : List Sample} {last : Int} (inv : Inv rc H last)
    (v now : Int) (hmono : last ≤ now) :
    ∃ rc', rc.add v now = .ok rc' ∧ Inv rc' ((now, v) :: H) now ∧ rc'.window = rc.window ∧
      rc'.scale = rc.scale ∧ rc'.originMs = some (originAfter rc now) := by
  rcases inv with ⟨f, hH⟩ | ⟨o, c, h1, h2, h3, h4⟩
  · subst hH
    obtain ⟨rc', ha, c', w, sc⟩ := add_fresh f v now
    refine ⟨rc', ha, Or.inr ⟨now, c', Int.le_refl _, ?_, ?_, ?_⟩, w, sc,
      (by rw [c'.origin]; unfold originAfter; rw [f.origin])⟩
    · have := f.wpos; omega
    · intro s hs; simp at hs; subst hs; exact Int.le_refl _
    · intro s hs; simp at hs; subst hs; exact Or.inl (Int.le_refl _)
  · obtain ⟨rc', ha, c', w, sc⟩ := add_core c v now (by omega)
    have hW := c.wpos
    refine ⟨rc', ha, Or.inr ⟨_, c', by omega, by rw [w]; omega, ?_, ?_⟩, w, sc,
      (by rw [c'.origin]; unfold originAfter; rw [c.origin])⟩
    · intro s hs
      rcases List.mem_cons.mp hs with rfl | hs
      · exact Int.le_refl _
      · have := h3 s hs; omega
    · intro s hs
      rw [w]
      rcases List.mem_cons.mp hs with rfl | hs
      · left; show max o (now - rc.window + 1) ≤ now; omega
      · rcases h4 s hs with h | h
        · by_cases hh : max o (now - ↑rc.window + 1) ≤ s.1
          · exact Or.inl hh
          · right; omega
        · right; omega

/-- **`rate` never raises and keeps the invariant**, for any `now ≥ last`; its value is the half-to-even
rounding of `scale · bytes / active_window` where `bytes`, `count` are those of the window ending at `now`
and `1 ≤ active_window ≤ window_size`; `None` iff the window is empty or only 1 ms is active. -/
theorem counter_rate_ok {rc : RateCounter} {H : List Sample} {last : Int} (inv : Inv rc H last)
    (now : Int) (hmono : last ≤ now) :
    ∃ rc' r, rc.rate now = .ok (rc', r) ∧ Inv rc' H now ∧ rc'.window = rc.window ∧ rc'.scale = rc.scale ∧
      (∀ o, rc.originMs = some o → rc'.originMs = some (originAfter rc now)) ∧
      ((r = none ∧ (Fresh rc ∨ rc'.total.count ≤ 0 ∨ rc'.originMs = some now)) ∨
       (∃ active : Int, 1 < active ∧ active ≤ (rc.window : Int) ∧ 0 < rc'.total.count ∧
          rc'.originMs = some (now - active + 1) ∧
          r = some (roundDivHalfEven (rc.scale * rc'.total.value) active))) := by
  rcases inv with ⟨f, hH⟩ | ⟨o, c, h1, h2, h3, h4⟩
  · exact ⟨rc, none, rate_fresh f now, Or.inl ⟨f, hH⟩, rfl, rfl, (by intro o ho; rw [f.origin] at ho; cases ho),
      Or.inl ⟨rfl, Or.inl f⟩⟩
  · obtain ⟨rc', c', w, sc, hr⟩ := rate_core c now
    have hW := c.wpos
    refine ⟨rc', _, hr, Or.inr ⟨_, c', by omega, by rw [w]; omega, ?_, ?_⟩, w, sc,
      (by intro _ _; rw [c'.origin]; unfold originAfter; rw [c.origin]), ?_⟩
    · intro s hs; have := h3 s hs; omega
    · intro s hs
      rw [w]
      rcases h4 s hs with h | h
      · by_cases hh : max o (now - ↑rc.window + 1) ≤ s.1
        · exact Or.inl hh
        · right; omega
      · right; omega
    · split
      · rename_i hc
        right
        exact ⟨now - max o (now - ↑rc.window + 1) + 1, hc.2, (by omega), hc.1,
          (by rw [c'.origin]; congr 1; omega), rfl⟩
      · rename_i hc
        left
        refine ⟨rfl, Or.inr ?_⟩
        by_cases h0 : rc'.total.count ≤ 0
        · exact Or.inl h0
        · right
          rw [c'.origin]
          congr 1
          omega

/-- **Window exactness**: under the invariant the running total is the count and byte sum of exactly the
samples that arrived in `(last - window_size, last]`. -/
theorem counter_window_exact {rc : RateCounter} {H : List Sample} {last : Int} (inv : Inv rc H last) :
    rc.total = agg (inWindow rc.window last) H := by
  rcases inv with ⟨f, hH⟩ | ⟨o, c, h1, h2, h3, h4⟩
  · subst hH; exact f.total
  · rw [c.total]
    apply agg_congr
    intro s hs
    have a3 := h3 s hs
    have a4 := h4 s hs
    unfold inWindow
    by_cases h : o ≤ s.1
    · simp only [h, decide_true]
      symm; simp only [Bool.and_eq_true, decide_eq_true_eq]; omega
    · simp only [h, decide_false]
      symm; simp only [Bool.and_eq_false_iff, decide_eq_false_iff_not]; omega

/-- `roundDivHalfEven a b` is the integer nearest to `a / b`, ties to even (what `round()` does). -/
theorem roundDivHalfEven_spec (a b : Int) (hb : 0 < b) :
    -b ≤ 2 * (roundDivHalfEven a b * b - a) ∧ 2 * (roundDivHalfEven a b * b - a) ≤ b ∧
    ((2 * (roundDivHalfEven a b * b - a) = b ∨ 2 * (roundDivHalfEven a b * b - a) = -b) →
      roundDivHalfEven a b % 2 = 0) := by
  have h1 : b * (a / b) + a % b = a := Int.mul_ediv_add_emod a b
  have h2 : 0 ≤ a % b := Int.emod_nonneg _ (by omega)
  have h3 : a % b < b := Int.emod_lt_of_pos _ hb
  unfold roundDivHalfEven
  simp only []
  generalize a / b = q at *
  generalize a % b = r at *
  have e1 : q * b = b * q := Int.mul_comm _ _
  have e2 : (q + 1) * b = b * q + b := by rw [Int.add_mul, e1]; omega
  split
  · rw [e1]; refine ⟨by omega, by omega, ?_⟩; intro h; omega
  · split
    · rw [e2]; refine ⟨by omega, by omega, ?_⟩; intro h; omega
    · split
      · rename_i hq; rw [e1]; exact ⟨by omega, by omega, fun _ => hq⟩
      · rename_i hq; rw [e2]; refine ⟨by omega, by omega, fun _ => ?_⟩; omega

/-! ### ∀ histories: any sequence of `add` / `rate` calls with non-decreasing times -/

inductive COp where
  | add (v now : Int)
  | rate (now : Int)

def COp.time : COp → Int
  | .add _ n => n
  | .rate n => n

def runOps : RateCounter → List COp → Outcome RateCounter
  | rc, [] => .ok rc
  | rc, .add v n :: rest =>
    match rc.add v n with
    | .ok rc' => runOps rc' rest
    | .valueError => .valueError
    | .crash k => .crash k
    | .hang => .hang
  | rc, .rate n :: rest =>
    match rc.rate n with
    | .ok (rc', _) => runOps rc' rest
    | .valueError => .valueError
    | .crash k => .crash k
    | .hang => .hang

/-- samples added by `ops`, newest first, on top of `acc` -/
def samplesOf : List COp → List Sample → List Sample
  | [], acc => acc
  | .add v n :: rest, acc => samplesOf rest ((n, v) :: acc)
  | .rate _ :: rest, acc => samplesOf rest acc

def Sorted : Int → List COp → Prop
  | _, [] => True
  | t, op :: rest => t ≤ op.time ∧ Sorted op.time rest

def lastTime : Int → List COp → Int
  | t, [] => t
  | _, op :: rest => lastTime op.time rest

theorem counter_history (ops : List COp) : ∀ (rc : RateCounter) (H : List Sample) (t : Int),
    Inv rc H t → Sorted t ops →
    ∃ rc', runOps rc ops = .ok rc' ∧ Inv rc' (samplesOf ops H) (lastTime t ops) ∧ rc'.window = rc.window := by
  induction ops with
  | nil => intro rc H t inv _; exact ⟨rc, rfl, inv, rfl⟩
  | cons op rest ih =>
    intro rc H t inv hs
    cases op with
    | add v n =>
      obtain ⟨rc1, h1, inv1, w1, _⟩ := counter_add_ok inv v n hs.1
      obtain ⟨rc2, h2, inv2, w2⟩ := ih rc1 _ n inv1 hs.2
      exact ⟨rc2, by simp only [runOps, h1]; exact h2, inv2, by rw [w2, w1]⟩
    | rate n =>
      obtain ⟨rc1, r, h1, inv1, w1, _⟩ := counter_rate_ok inv n hs.1
      obtain ⟨rc2, h2, inv2, w2⟩ := ih rc1 _ n inv1 hs.2
      exact ⟨rc2, by simp only [runOps, h1]; exact h2, inv2, by rw [w2, w1]⟩

/-- **"the measurement itself is computed over exactly the packets that arrived within the last 1000 ms"**
(RateCounter level, any window size): after ANY sequence of `add`/`rate` calls with non-decreasing times on
a new counter, no call has raised and `_total` is the count / byte sum of exactly the samples in
`(last - window_size, last]`. -/
theorem counter_history_exact (W : Nat) (scale : Int) (hW : 0 < W) (ops : List COp) (t0 : Int)
    (hs : Sorted t0 ops) :
    ∃ rc, runOps (RateCounter.new W scale) ops = .ok rc ∧
      rc.total = agg (inWindow W (lastTime t0 ops)) (samplesOf ops []) := by
  obtain ⟨rc, h, inv, w⟩ := counter_history ops _ [] t0 (counter_new_inv W scale hW t0) hs
  refine ⟨rc, h, ?_⟩
  have := counter_window_exact inv
  rw [w] at this
  exact this

/-! ## RemoteBitrateEstimator: the incoming-bitrate window over the WHOLE packet history

`G` is every packet `(arrival_ms, payload_size)` fed to `add` so far (newest first).  The estimator calls
`reset()` on its counter when `rate()` returns `None`; `GInv` says that what a reset discards (`D`) is
older than the window, so the total is still exact with respect to the whole history. -/

theorem inv_le {rc : RateCounter} {H : List Sample} {last : Int} (inv : Inv rc H last) :
    ∀ s ∈ H, s.1 ≤ last := by
  rcases inv with ⟨_, hH⟩ | ⟨o, _, _, _, h3, _⟩
  · subst hH; intro s hs; cases hs
  · exact h3

def GInv (c : RateCounter) (init : Bool) (G : List Sample) (last : Int) : Prop :=
  c.window = 1000 ∧ c.scale = 8000 ∧
  ∃ H D, G = H ++ D ∧ Inv c H last ∧ (∀ s ∈ D, s.1 + 1000 ≤ last) ∧
    (init = true → (Fresh c ∧ G = []) ∨ ∃ o, c.originMs = some o ∧ o < last)

theorem ginv_new (t : Int) : GInv (RateCounter.new 1000 8000) true [] t :=
  ⟨rfl, rfl, [], [], rfl, counter_new_inv 1000 8000 (by decide) t, (by intro s hs; cases hs),
   fun _ => Or.inl ⟨fresh_new 1000 8000 (by decide), rfl⟩⟩

/-- rate.py:531-537 never raises and keeps the global invariant, for any payload size and `now ≥ last`. -/
theorem countStep_ok {c : RateCounter} {init : Bool} {G : List Sample} {last : Int}
    (g : GInv c init G last) (size now : Int) (hmono : last ≤ now) :
    ∃ c' init', Rbe.countStep c init size now = .ok (c', init') ∧ GInv c' init' ((now, size) :: G) now := by
  obtain ⟨hw, hsc, H, D, hG, inv, hD, hinit⟩ := g
  obtain ⟨c1, r, hr, inv1, w1, s1, ho1, hcase⟩ := counter_rate_ok inv now hmono
  have hD' : ∀ s ∈ D, s.1 + 1000 ≤ now := fun s hs => by have := hD s hs; omega
  unfold Rbe.countStep
  rw [hr]
  cases r with
  | some m =>
    rcases hcase with ⟨hn, _⟩ | ⟨active, ha1, ha2, _, horig, _⟩
    · cases hn
    obtain ⟨c3, h3, inv3, w3, s3, ho3⟩ := counter_add_ok inv1 size now (Int.le_refl _)
    refine ⟨c3, true, ?_, by rw [w3, w1, hw], by rw [s3, s1, hsc], (now, size) :: H, D, by rw [hG]; rfl,
      inv3, hD', fun _ => Or.inr ⟨_, ho3, ?_⟩⟩
    · simp only [Option.isSome_some, if_true, h3]
    · unfold originAfter; rw [horig]; simp only []; rw [w1, hw]; omega
  | none =>
    cases init with
    | true =>
      have hW1 : 0 < c1.window := by rw [w1, hw]; decide
      obtain ⟨c3, h3, inv3, w3, s3, _⟩ :=
        counter_add_ok (counter_reset_inv c1 hW1 now) size now (Int.le_refl _)
      have hHold : ∀ s ∈ H, s.1 + 1000 ≤ now := by
        rcases hcase with ⟨_, hf | hcnt | horig⟩ | ⟨_, _, _, _, _, hn⟩
        · -- the counter was fresh: no samples at all
          rcases inv with ⟨_, hH⟩ | ⟨o, cc, _⟩
          · subst hH; intro s hs; cases hs
          · have := cc.origin; rw [hf.origin] at this; cases this
        · -- empty window
          intro s hs
          have hex := counter_window_exact inv1
          rw [hex] at hcnt
          have hz := agg_count_zero hcnt s hs
          have hle := inv_le inv1 s hs
          unfold inWindow at hz
          rw [w1, hw] at hz
          simp only [Bool.and_eq_false_iff, decide_eq_false_iff_not] at hz
          omega
        · -- origin == now is impossible once initialised
          rcases hinit rfl with ⟨_, hGe⟩ | ⟨o, ho, hlt⟩
          · rw [hG] at hGe
            have : H = [] := (List.append_eq_nil_iff.mp hGe).1
            subst this; intro s hs; cases hs
          · have := ho1 o ho
            rw [horig] at this
            unfold originAfter at this
            rw [ho] at this
            simp only [Option.some.injEq] at this
            rw [hw] at this
            omega
        · cases hn
      refine ⟨c3, false, ?_, by rw [w3]; exact (w1.trans hw), by rw [s3]; exact (s1.trans hsc),
        [(now, size)], H ++ D, by rw [hG]; rfl, inv3, ?_, fun h => by cases h⟩
      · simp only [Option.isSome_none, Bool.false_eq_true, if_false, if_true, h3]
      · intro s hs
        rcases List.mem_append.mp hs with hs | hs
        · exact hHold s hs
        · exact hD' s hs
    | false =>
      obtain ⟨c3, h3, inv3, w3, s3, _⟩ := counter_add_ok inv1 size now (Int.le_refl _)
      refine ⟨c3, false, ?_, by rw [w3, w1, hw], by rw [s3, s1, hsc], (now, size) :: H, D, by rw [hG]; rfl,
        inv3, hD', fun h => by cases h⟩
      simp only [Option.isSome_none, Bool.false_eq_true, if_false, h3]

/-- **"the measurement itself is computed over exactly the packets that arrived within the last 1000 ms"**
(estimator level): under `GInv` the counter total is the count / byte sum of exactly the packets of the
whole history with `last - 1000 < arrival ≤ last`, resets included. -/
theorem global_window_exact {c : RateCounter} {init : Bool} {G : List Sample} {last : Int}
    (g : GInv c init G last) : c.total = agg (inWindow 1000 last) G := by
  obtain ⟨hw, _, H, D, hG, inv, hD, _⟩ := g
  have h := counter_window_exact inv
  rw [hw] at h
  rw [h, hG, agg_append]
  have hz : agg (inWindow 1000 last) D = Bucket.zero := by
    apply agg_none
    intro s hs
    have := hD s hs
    unfold inWindow
    simp only [Bool.and_eq_false_iff, decide_eq_false_iff_not]
    left; omega
  rw [hz]
  apply Bucket.ext' <;> simp [Bucket.add, Bucket.zero]

/-- **Packets that share one arrival millisecond are all counted** — in particular the further packets of a
burst that arrives in the same millisecond as the packet which started or restarted the window (the first
frame of the stream, the first frame after an idle period ≥ 1000 ms, when `rate()` is `None` for BOTH packets):
after two `countStep`s at the same `now` the total is the total over the earlier history plus both packets. -/
theorem burst_same_ms_counted {c : RateCounter} {init : Bool} {G : List Sample} {last : Int}
    (g : GInv c init G last) (s1 s2 now : Int) (hmono : last ≤ now) :
    ∃ c1 i1 c2 i2, Rbe.countStep c init s1 now = .ok (c1, i1) ∧ Rbe.countStep c1 i1 s2 now = .ok (c2, i2) ∧
      c2.total = Bucket.add (Bucket.add (agg (inWindow 1000 now) G) ⟨1, s1⟩) ⟨1, s2⟩ := by
  obtain ⟨c1, i1, h1, g1⟩ := countStep_ok g s1 now hmono
  obtain ⟨c2, i2, h2, g2⟩ := countStep_ok g1 s2 now (Int.le_refl _)
  refine ⟨c1, i1, c2, i2, h1, h2, ?_⟩
  rw [global_window_exact g2]
  have hin : inWindow 1000 now now = true := by
    unfold inWindow; simp only [Bool.and_eq_true, decide_eq_true_eq]; omega
  simp only [agg, hin, if_true]

/-! ## RemoteBitrateEstimator.add: SSRC list, bounds, invariant over whole arrival histories -/

/-- first-seen-order set insertion (what a Python `dict` does with its keys) -/
def addSeen (l : List Int) (k : Int) : List Int := if k ∈ l then l else l ++ [k]

theorem dictSet_keys (d : List (Int × Int)) (k v : Int) :
    (dictSet d k v).map Prod.fst = addSeen (d.map Prod.fst) k := by
  induction d with
  | nil => simp [dictSet, addSeen]
  | cons e rest ih =>
    obtain ⟨k', v'⟩ := e
    unfold dictSet
    by_cases hk : k' = k
    · subst hk; simp [addSeen]
    · rw [if_neg hk]
      simp only [List.map_cons, ih]
      unfold addSeen
      have : k ≠ k' := fun h => hk h.symm
      by_cases hm : k ∈ rest.map Prod.fst
      · simp [hm]
      · simp [hm, this]

/-- what `add` does, step by step (rate.py:522-579) -/
theorem add_shape {s s' : Rbe} {now abs size ssrc : Int} {ret : Option (Int × List Int)}
    (h : s.add now abs size ssrc = .ok (s', ret)) :
    ∃ c cinit ia est det,
      Rbe.countStep s.counter s.counterInit size now = .ok (c, cinit) ∧
      Rbe.delayStep s.ia s.est s.det (abs * 256) now size = .ok (ia, est, det) ∧
      s'.ssrcs = dictSet s.ssrcs ssrc now ∧ s'.det = det ∧ s'.counterInit = cinit ∧
      ((Rbe.wantsUpdate s.lastUpdate now det.hypothesis = false ∧ ret = none ∧ s'.aimd = s.aimd ∧
          s'.counter = c) ∨
       (Rbe.wantsUpdate s.lastUpdate now det.hypothesis = true ∧
          ∃ c' m aimd r, c.rate now = .ok (c', m) ∧ s.aimd.update det.hypothesis m now = .ok (aimd, r) ∧
            s'.aimd = aimd ∧ s'.counter = c' ∧
            ret = r.map (fun v => (v, (dictSet s.ssrcs ssrc now).map Prod.fst)))) := by
  unfold Rbe.add at h
  simp only [] at h
  split at h
  · rename_i c cinit hc
    split at h
    · rename_i ia est det hd
      refine ⟨c, cinit, ia, est, det, hc, hd, ?_⟩
      split at h
      · rename_i hw
        split at h
        · rename_i c' m hr
          split at h
          · rename_i aimd target hu
            cases h
            exact ⟨rfl, rfl, rfl, Or.inr ⟨hw, c', m, aimd, some target, hr, hu, rfl, rfl, rfl⟩⟩
          · rename_i aimd hu
            cases h
            exact ⟨rfl, rfl, rfl, Or.inr ⟨hw, c', m, aimd, none, hr, hu, rfl, rfl, rfl⟩⟩
          all_goals cases h
        all_goals cases h
      · rename_i hw
        cases h
        exact ⟨rfl, rfl, rfl, Or.inl ⟨by simpa using hw, rfl, rfl, rfl⟩⟩
    all_goals cases h
  all_goals cases h

/-- `rate(now)` right after the packet was added: keeps the global invariant; a reported measurement is
non-negative when all payload sizes are. -/
theorem rate_ginv {c : RateCounter} {init : Bool} {G : List Sample} {now : Int}
    (g : GInv c init G now) (hne : G ≠ []) (hsz : ∀ p ∈ G, 0 ≤ p.2) {c' : RateCounter} {r : Option Int}
    (h : c.rate now = .ok (c', r)) :
    GInv c' init G now ∧ ∀ m, r = some m → 0 ≤ m ∧ ∃ active : Int, 1 < active ∧ active ≤ 1000 ∧
      m = roundDivHalfEven (8000 * (agg (inWindow 1000 now) G).value) active := by
  obtain ⟨hw, hsc, H, D, hG, inv, hD, hinit⟩ := g
  obtain ⟨c1, r1, hr, inv1, w1, s1, ho1, hcase⟩ := counter_rate_ok inv now (Int.le_refl _)
  rw [hr] at h
  cases h
  have g' : GInv c' init G now := by
    refine ⟨by rw [w1, hw], by rw [s1, hsc], H, D, hG, inv1, hD, ?_⟩
    intro hi
    rcases hinit hi with ⟨_, hGe⟩ | ⟨o, ho, hlt⟩
    · exact absurd hGe hne
    · right
      refine ⟨_, ho1 o ho, ?_⟩
      unfold originAfter; rw [ho]; simp only []; rw [hw]; omega
  refine ⟨g', ?_⟩
  intro m hm
  rcases hcase with ⟨hn, _⟩ | ⟨active, ha1, ha2, _, _, hv⟩
  · rw [hn] at hm; cases hm
  · rw [hv] at hm
    cases hm
    rw [hsc, global_window_exact g']
    refine ⟨?_, active, ha1, by rw [hw] at ha2; exact ha2, rfl⟩
    apply roundDivHalfEven_nonneg _ _ _ (by omega)
    have := agg_value_nonneg (inWindow 1000 now) G hsz
    omega

theorem ainv_mono {a : Aimd} {t now : Int} (inv : AInv a t) (h : t ≤ now) : AInv a now :=
  ⟨inv.cur, inv.latest, inv.rtt, inv.inc, fun l hl => by have := inv.last l hl; omega, inv.notDec⟩

theorem wantsUpdate_overusing (l : Option Int) (now : Int) : Rbe.wantsUpdate l now .overusing = true := by
  cases l <;> simp [Rbe.wantsUpdate]

/-- Invariant of the whole estimator after a history `G` of packets `(arrival, size)` (newest first) whose
SSRCs, in first-seen order, are `seen`; `t` is the latest arrival time. -/
structure RInv (s : Rbe) (G : List Sample) (seen : List Int) (t : Int) : Prop where
  counter : GInv s.counter s.counterInit G t
  aimd : AInv s.aimd t
  ssrcs : s.ssrcs.map Prod.fst = seen
  sizes : ∀ p ∈ G, 0 ≤ p.2

theorem rinv_new (t : Int) : RInv Rbe.new [] [] t :=
  ⟨ginv_new t, ainv_new t, rfl, by intro p hp; cases hp⟩

/-- **One packet.**  For an estimator satisfying the invariant, a packet with `arrival ≥` the previous
arrival and `size ≥ 0`: if `add` returns (i.e. no float helper failed), then the invariant holds again, the
incoming-bitrate total is exactly the packets of the last 1000 ms, over-use always produces a report, and a
report `(v, l)` lists exactly the SSRCs seen (first-seen order), is a non-negative integer, is at most
`max(int(1.5·m)+10000, previous estimate, m)` and, on over-use, at most `round(0.85·m)` — where `m ≥ 0` is
the rate measured over that window (half-even rounding of `8000·bytes/active_ms`), or the latest measured
rate when `rate()` is `None`. -/
theorem add_step (sf : SignFacts realFloats) {s : Rbe} {G : List Sample} {seen : List Int} {t : Int}
    (inv : RInv s G seen t) {now abs size ssrc : Int} (hmono : t ≤ now) (hsize : 0 ≤ size)
    {s' : Rbe} {ret : Option (Int × List Int)} (h : s.add now abs size ssrc = .ok (s', ret)) :
    RInv s' ((now, size) :: G) (addSeen seen ssrc) now ∧
    s'.counter.total = agg (inWindow 1000 now) ((now, size) :: G) ∧
    (s'.det.hypothesis = .overusing → ret ≠ none) ∧
    ∀ v l, ret = some (v, l) →
      l = addSeen seen ssrc ∧ 0 ≤ v ∧ s'.aimd.current = v ∧
      ∃ (mr : Option Int) (m : Int), m = mr.getD s.aimd.latest ∧ 0 ≤ m ∧
        (∀ x, mr = some x → ∃ active : Int, 1 < active ∧ active ≤ 1000 ∧
          x = roundDivHalfEven (8000 * (agg (inWindow 1000 now) ((now, size) :: G)).value) active) ∧
        (∃ f15, int15 m = .ok f15 ∧ v ≤ max (f15 + 10000) (max s.aimd.current m)) ∧
        (s'.det.hypothesis = .overusing → ∃ r85, round85 m = .ok r85 ∧ v ≤ r85) := by
  obtain ⟨c, cinit, ia, est, det, hc, hd, hss, hdet, hci, hcase⟩ := add_shape h
  obtain ⟨c0, init0, hc0, g0⟩ := countStep_ok inv.counter size now hmono
  rw [hc] at hc0
  cases hc0
  have hsz : ∀ p ∈ (now, size) :: G, 0 ≤ p.2 := by
    intro p hp
    rcases List.mem_cons.mp hp with rfl | hp
    · exact hsize
    · exact inv.sizes p hp
  have hkeys : s'.ssrcs.map Prod.fst = addSeen seen ssrc := by
    rw [hss, dictSet_keys, inv.ssrcs]
  rcases hcase with ⟨hw, hret, haimd, hcnt⟩ | ⟨hw, c', mr, aimd, r, hr, hu, haimd, hcnt, hret⟩
  · -- the rate controller is not consulted
    refine ⟨⟨by rw [hcnt, hci]; exact g0, by rw [haimd]; exact ainv_mono inv.aimd hmono, hkeys, hsz⟩,
      by rw [hcnt]; exact global_window_exact g0, ?_, by intro v l hvl; rw [hret] at hvl; cases hvl⟩
    intro ho
    rw [hdet] at ho
    rw [ho, wantsUpdate_overusing] at hw
    cases hw
  · obtain ⟨g1, hm⟩ := rate_ginv g0 (by simp) hsz hr
    obtain ⟨ainv', hnn⟩ := update_nonneg sf inv.aimd hmono (fun m hm' => (hm m hm').1) hu
    refine ⟨⟨by rw [hcnt, hci]; exact g1, by rw [haimd]; exact ainv', hkeys, hsz⟩,
      by rw [hcnt]; exact global_window_exact g1, ?_, ?_⟩
    · intro ho
      rw [hdet] at ho
      rw [ho] at hu
      obtain ⟨v, _, hrv, _⟩ := update_overuse_cut hu
      rw [hret, hrv]; simp
    · intro v l hvl
      rw [hret] at hvl
      cases r with
      | none => cases hvl
      | some v' =>
        simp only [Option.map_some, Option.some.injEq, Prod.mk.injEq] at hvl
        obtain ⟨hv, hl⟩ := hvl
        subst hv
        obtain ⟨f15, hf, hcap, hcur⟩ := update_cap hu
        refine ⟨by rw [← hl, dictSet_keys, inv.ssrcs], hnn _ rfl, by rw [haimd]; exact hcur,
          mr, mr.getD s.aimd.latest, rfl, ?_, fun x hx => (hm x hx).2, ⟨f15, hf, hcap⟩, ?_⟩
        · cases mr with
          | none => exact inv.aimd.latest
          | some x => exact (hm x rfl).1
        · intro ho
          rw [hdet] at ho
          rw [ho] at hu
          obtain ⟨v2, r85, hrv, h85, hle⟩ := update_overuse_cut hu
          cases hrv
          exact ⟨r85, h85, hle⟩

/-! ### ∀ arrival histories -/

/-- a packet as fed to `add`: arrival time (ms), abs-send-time stamp, payload size, SSRC -/
structure Pkt where
  now : Int
  abs : Int
  size : Int
  ssrc : Int

def runAdds : Rbe → List Pkt → Outcome Rbe
  | s, [] => .ok s
  | s, p :: rest =>
    match s.add p.now p.abs p.size p.ssrc with
    | .ok (s', _) => runAdds s' rest
    | .valueError => .valueError
    | .crash k => .crash k
    | .hang => .hang

/-- non-decreasing arrival times starting at `t`, sizes ≥ 0; stamps and SSRCs arbitrary -/
def Admissible : Int → List Pkt → Prop
  | _, [] => True
  | t, p :: rest => t ≤ p.now ∧ 0 ≤ p.size ∧ Admissible p.now rest

def histOf : List Pkt → List Sample → List Sample
  | [], acc => acc
  | p :: rest, acc => histOf rest ((p.now, p.size) :: acc)

def seenOf : List Pkt → List Int → List Int
  | [], acc => acc
  | p :: rest, acc => seenOf rest (addSeen acc p.ssrc)

def lastArrival : Int → List Pkt → Int
  | t, [] => t
  | _, p :: rest => lastArrival p.now rest

/-- **Every reachable state satisfies the invariant**: for ANY admissible arrival history (any gaps, any
send-time stamps, any sizes ≥ 0, any SSRCs), if the run returns then `RInv` holds for the whole history —
so `add_step`'s guarantees apply to every packet of every history. -/
theorem run_history (sf : SignFacts realFloats) (ps : List Pkt) :
    ∀ (s : Rbe) (G : List Sample) (seen : List Int) (t : Int) (s' : Rbe),
      RInv s G seen t → Admissible t ps → runAdds s ps = .ok s' →
      RInv s' (histOf ps G) (seenOf ps seen) (lastArrival t ps) := by
  induction ps with
  | nil => intro s G seen t s' inv _ h; cases h; exact inv
  | cons p rest ih =>
    intro s G seen t s' inv adm h
    simp only [runAdds] at h
    split at h
    · rename_i s1 ret h1
      exact ih s1 _ _ p.now s' (add_step sf inv adm.1 adm.2.1 h1).1 adm.2.2 h
    all_goals cases h

/-- From a new estimator: after any admissible history the reported SSRC list is exactly the SSRCs seen
(first-seen order, no duplicates) and the incoming-bitrate total is exactly the packets of the last 1000 ms. -/
theorem run_from_new (sf : SignFacts realFloats) (ps : List Pkt) (t0 : Int) (s' : Rbe)
    (adm : Admissible t0 ps) (h : runAdds Rbe.new ps = .ok s') :
    s'.ssrcs.map Prod.fst = seenOf ps [] ∧
    s'.counter.total = agg (inWindow 1000 (lastArrival t0 ps)) (histOf ps []) ∧
    0 ≤ s'.aimd.current := by
  have inv := run_history sf ps Rbe.new [] [] t0 s' (rinv_new t0) adm h
  exact ⟨inv.ssrcs, global_window_exact inv.counter, inv.aimd.cur⟩

theorem addSeen_nodup (l : List Int) (k : Int) (h : l.Nodup) : (addSeen l k).Nodup := by
  unfold addSeen
  split
  · exact h
  · rename_i hk
    rw [List.nodup_append]
    refine ⟨h, by simp, ?_⟩
    intro a ha b hb
    simp at hb
    subst hb
    intro hab; subst hab; exact hk ha

theorem mem_addSeen (l : List Int) (k x : Int) : x ∈ addSeen l k ↔ x ∈ l ∨ x = k := by
  unfold addSeen
  split
  · rename_i hk
    constructor
    · exact Or.inl
    · rintro (h | h)
      · exact h
      · subst h; exact hk
  · simp

/-! ### REMB can encode every estimate below 2^81 (rtp.py:181-185) -/

theorem rembLoop_spec : ∀ (n fuel : Nat) (m e : Int), n < fuel → 0 ≤ m → m < 2 ^ (18 + n) →
    ∃ m' e', rembLoop fuel m e = some (m', e') ∧ 0 ≤ m' ∧ m' ≤ 0x3FFFF ∧ e ≤ e' ∧ e' ≤ e + n := by
  intro n
  induction n with
  | zero =>
    intro fuel m e hf h0 hm
    obtain ⟨f, rfl⟩ : ∃ f, fuel = f + 1 := ⟨fuel - 1, by omega⟩
    refine ⟨m, e, ?_, h0, by simp at hm; omega, Int.le_refl _, by omega⟩
    unfold rembLoop
    rw [if_neg (by simp at hm; omega)]
  | succ n ih =>
    intro fuel m e hf h0 hm
    obtain ⟨f, rfl⟩ : ∃ f, fuel = f + 1 := ⟨fuel - 1, by omega⟩
    unfold rembLoop
    by_cases hgt : m > 0x3FFFF
    · rw [if_pos hgt]
      have hm2 : m / 2 < 2 ^ (18 + n) := by
        have : (2 : Int) ^ (18 + (n + 1)) = 2 * 2 ^ (18 + n) := by
          rw [show 18 + (n + 1) = (18 + n) + 1 by omega, Int.pow_succ]; omega
        omega
      obtain ⟨m', e', h, a1, a2, a3, a4⟩ := ih f (m / 2) (e + 1) (by omega) (by omega) hm2
      exact ⟨m', e', h, a1, a2, by omega, by omega⟩
    · rw [if_neg hgt]
      exact ⟨m, e, rfl, h0, by omega, Int.le_refl _, by omega⟩

/-- **Every estimate `0 ≤ v < 2^81` is REMB-encodable**: the exponent loop of `pack_remb_fci` terminates
with an 18-bit mantissa and an exponent ≤ 63, so `(exponent << 2) | (mantissa >> 16)` fits the `B` field. -/
theorem remb_encodable (v : Int) (h0 : 0 ≤ v) (h : v < 2 ^ 81) :
    ∃ m e, rembLoop 64 v 0 = some (m, e) ∧ 0 ≤ m ∧ m ≤ 0x3FFFF ∧ 0 ≤ e ∧ e ≤ 63 ∧
      e * 4 + m / 65536 < 256 := by
  obtain ⟨m, e, hl, a1, a2, a3, a4⟩ := rembLoop_spec 63 64 v 0 (by decide) h0 (by simpa using h)
  exact ⟨m, e, hl, a1, a2, a3, by omega, by omega⟩

/-! ## Non-vacuity: the hypotheses are satisfiable, the conclusions are not trivially true

Lean's kernel cannot evaluate `Float` operations, so concrete AIMD runs are shown for `exactFloats`, a family
of helpers computing the same quantities in exact integer arithmetic (the theorems hold for every family);
that the REAL helpers also produce such runs is what the compiled-model correspondence shows. -/

def exactFloats : AimdFloats where
  int15 := fun m => .ok (3 * m / 2)
  round85 := fun m => .ok (roundDivHalfEven (85 * m) 100)
  kbpsOf := fun _ => .ok 0.0
  multInc := fun nb _ _ => .ok (max (8 * nb / 100) 1000)
  framePackets := fun cur => .ok (0.0, (cur + 287999) / 288000)
  nearMaxTail := fun _ p _ => .ok (if p = 0 then 0 else 100)
  scale1000 := fun x => .ok (x / 1000)
  increaseClear := fun nm avg _ _ => .ok (nm, avg)
  decreaseMax := fun _ v _ => .ok (0.0, v)

def retOf : Outcome (Aimd × Option Int) → Option Int
  | .ok (_, r) => r
  | _ => none

def stOf : Outcome (Aimd × Option Int) → Aimd
  | .ok (a, _) => a
  | _ => Aimd.new

/-- over-use at 1 kbit/s reports round(0.85·1000) = 850 … -/
example : retOf (updateWith exactFloats Aimd.new .overusing (some 1000) 0) = some 850 := by decide
/-- … a second over-use at 0 bit/s reports 0 and keeps near-max mode … -/
def afterTwoOveruses : Aimd :=
  stOf (updateWith exactFloats (stOf (updateWith exactFloats Aimd.new .overusing (some 1000) 0))
    .overusing (some 0) 3100)
example : afterTwoOveruses.current = 0 ∧ afterTwoOveruses.nearMax = true := by decide
/-- … and the next normal-usage update runs `_near_max_rate_increase` with `current_bitrate = 0`:
the pinned code divides by zero, the fixed code reports 0 and, 100 ms later, 400 = int(100 ms · 4000 / 1000). -/
example : nearMaxIncUnfixed exactFloats afterTwoOveruses.current 200 = .crash "ZeroDivisionError" := by decide
example : retOf (updateWith exactFloats afterTwoOveruses .normal (some 0) 3200) = some 0 := by decide
example : retOf (updateWith exactFloats (stOf (updateWith exactFloats afterTwoOveruses .normal (some 0) 3200))
    .normal (some 0) 3300) = some 400 := by decide

/-- a measurement of exactly 0 bit/s is a measurement: after an over-use at 163200 bit/s, an over-use at a measured 0
reports 0 (not 85 % of the stale 163200), records 0 as the latest measurement, and a further over-use without a
measurement works with that 0 -/
def afterOveruseAtZero : Aimd :=
  stOf (updateWith exactFloats (stOf (updateWith exactFloats Aimd.new .overusing (some 163200) 0)) .overusing (some 0) 600)
example : retOf (updateWith exactFloats Aimd.new .overusing (some 163200) 0) = some 138720 := by decide
example : retOf (updateWith exactFloats (stOf (updateWith exactFloats Aimd.new .overusing (some 163200) 0)) .overusing (some 0) 600)
    = some 0 := by decide
example : afterOveruseAtZero.latest = 0 := by decide
example : retOf (updateWith exactFloats afterOveruseAtZero .overusing none 700) = some 0 := by decide
/-- the hypothesis of `update_overuse_exact` holds for `exactFloats` on measurements `m ≥ 0` -/
example : ∀ m r f, 0 ≤ m → exactFloats.round85 m = .ok r → exactFloats.int15 m = .ok f → r ≤ f + 10000 := by
  intro m r f hm h1 h2; cases h1; cases h2
  have := (roundDivHalfEven_spec (85 * m) 100 (by decide)).2.1
  omega
/-- hypotheses of `update_never_rises_above` / `update_overuse_85` / `SignFacts` hold for `exactFloats` -/
example : ∀ m f, exactFloats.int15 m = .ok f → f ≤ 3 * m / 2 := by
  intro m f h; cases h; exact Int.le_refl _
theorem signFacts_exact : SignFacts exactFloats := by
  refine ⟨?_, ?_, ?_⟩
  · intro m r hm h; cases h; exact roundDivHalfEven_nonneg _ _ (by omega) (by decide)
  · intro nb l n x h; cases h; omega
  · intro x y hx h; cases h; exact Int.ediv_nonneg hx (by decide)
example : ∀ m r, 0 ≤ m → exactFloats.round85 m = .ok r → 100 * r ≤ 85 * m + 100 := by
  intro m r _ h; cases h
  have := (roundDivHalfEven_spec (85 * m) 100 (by decide)).2.1
  omega
/-- `FloatsOk` is satisfiable (every helper of `exactFloats` returns) -/
example : FloatsOk exactFloats afterTwoOveruses 0 3200 := by
  refine ⟨0.0, rfl, ⟨_, rfl⟩, ?_, ?_⟩
  · intro h; exact ⟨⟨_, rfl⟩, ⟨_, rfl⟩⟩
  · intro h; exact absurd h (by decide)
example : AInv Aimd.new 0 := ainv_new 0

/-- multiplicative increase 100000 → 108000 while the measured 100 kbit/s allows up to 160000; with only
50 kbit/s measured the cap max(75000 + 10000, 100000) binds and the estimate does not rise -/
example : retOf (updateWith exactFloats { Aimd.new with initialized := true, current := 100000 } .normal (some 100000) 10)
    = some 108000 := by decide
example : retOf (updateWith exactFloats { Aimd.new with initialized := true, current := 100000 } .normal (some 50000) 10)
    = some 100000 := by decide

/-! RateCounter -/
example : Sorted 0 [.add 1500 5, .rate 6, .add 0 2000, .rate 2000, .rate 2999, .rate 3000] := by
  simp [Sorted, COp.time]
example : (match runOps (RateCounter.new 10 1) [.add 3 0, .add 4 5, .rate 12] with
    | .ok rc => some (rc.total.count, rc.total.value) | _ => none) = some (1, 4) := by decide
example : roundDivHalfEven 5 2 = 2 ∧ roundDivHalfEven 7 2 = 4 ∧ roundDivHalfEven 8000 3 = 2667 := by decide

/-! Estimator: the first packet of a history -/
example : Admissible 0 [⟨5, 16777215, 1200, 7⟩, ⟨5, 3, 0, 7⟩, ⟨2000, 100, 1500, 9⟩] := by
  simp [Admissible]
example : seenOf [⟨5, 0, 1200, 7⟩, ⟨5, 3, 0, 9⟩, ⟨6, 100, 1500, 7⟩] [] = [7, 9] := by decide
example : rembLoop 64 30000000 0 = some (234375, 7) := by decide
def isOkNone : Outcome (Rbe × Option (Int × List Int)) → Bool
  | .ok (_, none) => true
  | _ => false
-- the hypothesis `s.add … = .ok (s', ret)` of `add_step` is satisfiable: the first packet of a history
set_option maxRecDepth 20000 in
example : isOkNone (Rbe.new.add 5 16777215 1200 7) = true := by decide

end Aiortc.Props.C15
