import Aiortc.Lemmas.H264Packetize
import Aiortc.Lemmas.Vp8
import Aiortc.Lemmas.H264Split
/-!
# C16 — H.264 and VP8 packetisation is lossless and respects the payload size limit

All statements are about the executable models `Aiortc.Model.H264` / `Aiortc.Model.Vp8` (tied to
`src/aiortc/codecs/h264.py` / `vpx.py` by the differential run of `harness/props/C16.py`) and quantify
over ALL inputs.  Sizes come from `Aiortc.Gen.Codec` (regenerated from the repo on every run); the
`*_const` lemmas pin them to the numbers of the property text.

Vocabulary (defined in `Lemmas/H264.lean`):
* `ValidNal n`       : `n` has ≥ 2 bytes, all `< 256`, and type bits `n[0] & 0x1F` in 1..23;
* `withStartCodes l` : `00 00 00 01 ++ n` for every `n` of `l`, concatenated (the original bitstream);
* `stapEnc l`        : body of a STAP-A packet (16-bit length ++ unit, for every unit of `l`);
* `depayloadAll ps`  : `h264_depayload` of every payload in order, concatenated; any exception aborts.
-/
namespace Aiortc.Props.C16
open Aiortc Aiortc.Gen Aiortc.Model Aiortc.Model.H264 Aiortc.Lemmas.H264

/-! ## constants of the property text -/

theorem h264_packet_max_const : H264_PACKET_MAX = 1300 := by decide
theorem vpx_packet_max_const : VPX_PACKET_MAX = 1300 := by decide
theorem h264_header_sizes_const :
    H264_NAL_HEADER_SIZE = 1 ∧ H264_FU_A_HEADER_SIZE = 2 ∧ H264_LENGTH_FIELD_SIZE = 2 ∧
    H264_STAP_A_HEADER_SIZE = 3 ∧ H264_NAL_TYPE_FU_A = 28 ∧ H264_NAL_TYPE_STAP_A = 24 := by decide

/-! ## H.264: `_packetize` -/

/-- `_packetize` never raises (and its loops terminate) on valid NAL units. -/
theorem h264_packetize_ok (nals : List Bytes) (hv : ∀ n ∈ nals, ValidNal n) :
    ∃ payloads, packetize nals = .ok payloads := by
  obtain ⟨p, h, _, _⟩ := packetize_spec nals hv
  exact ⟨p, h⟩

/-- Every RTP payload is at most 1300 bytes. -/
theorem h264_size (nals : List Bytes) (hv : ∀ n ∈ nals, ValidNal n) (payloads : List Bytes)
    (h : packetize nals = .ok payloads) : ∀ p ∈ payloads, p.length ≤ 1300 := by
  obtain ⟨p', h', hs, _⟩ := packetize_spec nals hv
  rw [h] at h'; cases h'; exact hs

/-- Depacketising the payloads in order and concatenating reproduces the NAL units, in order, each
behind a 4-byte start code; no depayload raises. -/
theorem h264_lossless (nals : List Bytes) (hv : ∀ n ∈ nals, ValidNal n) (payloads : List Bytes)
    (h : packetize nals = .ok payloads) : depayloadAll payloads = .ok (withStartCodes nals) := by
  obtain ⟨p', h', _, hd⟩ := packetize_spec nals hv
  rw [h] at h'; cases h'; exact hd

example : ValidNal [0x65, 0x88] := by unfold ValidNal; decide
example : ∀ n ∈ [[0x65, 0x88], [0x41, 0x9a, 0x00]], ValidNal n := by unfold ValidNal; decide
example : packetize [[0x65, 0x88], [0x41, 0x9a, 0x00]]
    = .ok [[0x78, 0, 2, 0x65, 0x88, 0, 3, 0x41, 0x9a, 0x00]] := by decide
example : depayloadAll [[0x78, 0, 2, 0x65, 0x88, 0, 3, 0x41, 0x9a, 0x00]]
    = .ok [0, 0, 0, 1, 0x65, 0x88, 0, 0, 0, 1, 0x41, 0x9a, 0x00] := by decide

/-! ## H.264: FU-A fragments of one NAL unit (`_packetize_fu_a` on a unit of more than 1300 bytes) -/

/-- The fragments of a NAL unit `b0 :: t` of more than 1300 bytes: at least two; the first two bytes of
the fragments are `[F/NRI|28, type|S]`, then `[F/NRI|28, type]`…, then `[F/NRI|28, type|E]` — exactly one
start and one end marker; the bytes after the two header bytes concatenate to the unit's payload `t`;
every fragment carries payload and has at most 1300 bytes. -/
theorem fu_a_markers (b0 : Nat) (t : Bytes) (ht : 1300 ≤ t.length) :
    ∃ (frags : List Bytes) (k : Nat), packetizeFuA (b0 :: t) = .ok frags ∧ frags.length = k + 2 ∧
      frags.map (List.take 2) =
        [(b0 &&& 0xE0) ||| 28, (b0 &&& 0x1F) ||| 0x80] ::
          (List.replicate k [(b0 &&& 0xE0) ||| 28, b0 &&& 0x1F] ++ [[(b0 &&& 0xE0) ||| 28, (b0 &&& 0x1F) ||| 0x40]]) ∧
      (frags.map (List.drop 2)).flatten = t ∧
      ∀ f ∈ frags, 3 ≤ f.length ∧ f.length ≤ 1300 := by
  obtain ⟨hn1, hnp, hq1, hq2, hq3, hdm, hmod, hn2⟩ := fu_arith t.length (by omega)
  have hn2' := hn2 (by omega)
  obtain ⟨k, hk⟩ : ∃ k, (t.length + 1298 - 1) / 1298 = k + 2 := ⟨_, (Nat.sub_add_cancel hn2').symm⟩
  refine ⟨_, k, packetizeFuA_eq b0 t (by omega), ?_, ?_, ?_, ?_⟩
  · rw [fuSpec_length, hk]
  · rw [hk, fuSpec_headers_first]
  · exact fuSpec_payload _ _ _ _ _ _ _ (by omega) (by omega)
  · intro f hf
    constructor
    · exact fuSpec_nonempty _ _ _ hq1 _ _ _ _ (by omega) (by omega) f hf
    · have := fuSpec_size _ _ _ _ _ _ _ f hf
      split at this
      · have := hq3 (by assumption); omega
      · omega

/-- The bits of the FU indicator / FU header bytes named in `fu_a_markers`: type 28 with the original
F/NRI bits; S only in the start header, E only in the end header, R never; the original type in all
three; and indicator + header restore the original NAL header byte. -/
theorem fu_a_header_bits (b0 : Nat) (hb : b0 < 256) :
    ((b0 &&& 0xE0) ||| 28) &&& 0x1F = 28 ∧ ((b0 &&& 0xE0) ||| 28) &&& 0xE0 = b0 &&& 0xE0 ∧
    ((b0 &&& 0x1F) ||| 0x80) &&& 0xE0 = 0x80 ∧ (b0 &&& 0x1F) &&& 0xE0 = 0 ∧ ((b0 &&& 0x1F) ||| 0x40) &&& 0xE0 = 0x40 ∧
    ((b0 &&& 0x1F) ||| 0x80) &&& 0x1F = b0 &&& 0x1F ∧ ((b0 &&& 0x1F) ||| 0x40) &&& 0x1F = b0 &&& 0x1F ∧
    (((b0 &&& 0xE0) ||| 28) &&& 0xE0) ||| (((b0 &&& 0x1F) ||| 0x80) &&& 0x1F) = b0 := by
  refine ⟨fu_indicator_type b0, fu_indicator_nri b0, ?_, ?_, ?_, fu_start_type b0, fu_end_type b0,
    byte_fu_restore b0 hb⟩ <;> simp [Nat.and_or_distrib_right, Nat.and_assoc]

/-- Depacketising the fragments gives back start code + the whole unit with its original header. -/
theorem fu_a_reassemble (b0 : Nat) (t : Bytes) (hb : b0 < 256) (ht : 1300 ≤ t.length) :
    ∃ frags, packetizeFuA (b0 :: t) = .ok frags ∧ depayloadAll frags = .ok (startCode ++ (b0 :: t)) := by
  obtain ⟨f, h1, _, h3⟩ := packetizeFuA_big b0 t hb ht
  exact ⟨f, h1, h3⟩

/-- The unit is cut into the minimal number of fragments, `⌈payload / 1298⌉`. -/
theorem fu_a_count (b0 : Nat) (t : Bytes) (ht : 1 ≤ t.length) (frags : List Bytes)
    (h : packetizeFuA (b0 :: t) = .ok frags) : frags.length = (t.length + 1297) / 1298 := by
  rw [packetizeFuA_eq b0 t ht] at h
  cases h
  rw [fuSpec_length]
  omega

example : 1300 ≤ (List.replicate 1300 7).length := by rw [List.length_replicate]; omega

/-! ## H.264: STAP-A -/

/-- Every aggregated unit is recovered whole and in order: parsing a STAP-A packet made of any
non-empty list of units (each shorter than 65536 bytes) yields exactly those units behind start codes. -/
theorem stap_a_whole (h : Nat) (nals : List Bytes) (hh : h &&& 0x1F = 24) (hne : nals ≠ [])
    (hl : ∀ n ∈ nals, n.length < 65536) :
    H264.parse (h :: stapEnc nals) = .ok (true, withStartCodes nals) :=
  parse_stap_a h nals hh hne hl

/-- What `_packetize_stap_a(data, it)` does with non-empty units: it consumes a non-empty prefix `agg`
of `data :: it` and hands back the look-ahead unit and the rest of the iterator unchanged; the packet is
`data` itself (one unit) or a STAP-A packet (type 24) of at most 1300 bytes holding exactly `agg`. -/
theorem stap_a_packet (data : Bytes) (it : List Bytes) (hd : data ≠ []) (hit : ∀ n ∈ it, n ≠ []) :
    ∃ (agg : List Bytes) (packet : Bytes) (next : Option Bytes) (rest : List Bytes),
      packetizeStapA data it = .ok (packet, next, rest) ∧
      data :: it = agg ++ (next.toList ++ rest) ∧ (next = none → rest = []) ∧
      ((agg = [data] ∧ packet = data) ∨
       (2 ≤ agg.length ∧ ∃ h, h &&& 0x1F = 24 ∧ packet = h :: stapEnc agg ∧ packet.length ≤ 1300 ∧
          ∀ n ∈ agg, n.length < 65536)) := by
  obtain ⟨agg, packet, next, rest, h1, h2, h3, h4⟩ := packetizeStapA_spec data it hd hit
  refine ⟨agg, packet, next, rest, h1, h2, h3, ?_⟩
  rcases h4 with h | ⟨ha, h, hh, hp, hs, hl⟩
  · exact Or.inl h
  · exact Or.inr ⟨ha, h, hh, hp, by subst hp; simp; omega, hl⟩

example : packetizeStapA [0x65, 0x88] [[0x41, 0x9a]] = .ok ([0x78, 0, 2, 0x65, 0x88, 0, 2, 0x41, 0x9a], none, []) := by
  decide

/-- A single NAL unit payload (types 1..23) depayloads to start code + itself. -/
theorem single_nal_depayload (n : Bytes) (hv : ValidNal n) : depayload n = .ok (startCode ++ n) := by
  obtain ⟨hlen, _, h1, h2⟩ := hv
  cases n with
  | nil => simp at hlen
  | cons b t => exact depayload_single (b :: t) b t rfl hlen (by simpa using h1) (by simpa using h2)

/-! ## H.264: `_split_bitstream` and the whole `pack` path

`framed items` is the Annex-B bitstream in which every unit `n` of `items = [(k, n), …]` is preceded by
a 3-byte (`k = 0`) or 4-byte (`k = 1`) start code; `Clean n`: no `00 00 01` inside `n` and `n` does not end
in `00` (what H.264 emulation prevention and the RBSP stop bit guarantee). -/

/-- Splitting the framed bitstream returns exactly the NAL units, for any mix of 3- and 4-byte start codes. -/
theorem split_bitstream (items : List (Nat × Bytes)) (hall : ∀ it ∈ items, it.1 ≤ 1 ∧ Clean it.2) :
    splitBitstream (framed items) = .ok (items.map (·.2)) :=
  splitBitstream_framed items hall

/-- `pack` (split, then packetise) followed by depayloading: payloads ≤ 1300 bytes and the result is the
same units behind 4-byte start codes. -/
theorem h264_pack_lossless (items : List (Nat × Bytes))
    (hall : ∀ it ∈ items, it.1 ≤ 1 ∧ Clean it.2 ∧ ValidNal it.2) :
    ∃ payloads, H264.pack (framed items) = .ok payloads ∧ (∀ p ∈ payloads, p.length ≤ 1300) ∧
      depayloadAll payloads = .ok (withStartCodes (items.map (·.2))) := by
  have hs := splitBitstream_framed items (fun it h => ⟨(hall it h).1, (hall it h).2.1⟩)
  obtain ⟨p, hp, hsz, hd⟩ := packetize_spec (items.map (·.2)) (by
    intro n hn
    obtain ⟨it, hit, rfl⟩ := List.mem_map.mp hn
    exact (hall it hit).2.2)
  refine ⟨p, ?_, hsz, hd⟩
  unfold H264.pack
  rw [hs]
  exact hp

example : Clean [0x65, 0x88, 0x00, 0x00, 0x03, 0x01] := by
  constructor
  · intro pre post h
    match pre, h with
    | [], h => simp at h
    | [_], h => simp at h
    | [_, _], h => simp at h
    | [_, _, _], h => simp at h
    | _ :: _ :: _ :: _ :: pre', h =>
      have := congrArg List.length h
      simp at this
      omega
  · decide
example : splitBitstream (framed [(1, [0x65, 0x88]), (0, [0x41, 0x9a])]) = .ok [[0x65, 0x88], [0x41, 0x9a]] := by decide

/-! ## VP8: `Vp8Encoder._packetize` and the payload descriptor

`Lemmas.Vp8.D s pic` is the descriptor with `partition_start = s`, `partition_id = 0`,
`picture_id = pic` and no other extension; `Lemmas.Vp8.hdr s pic` its 3- or 4-byte wire form. -/

section VP8
open Aiortc.Model.Vp8 Aiortc.Lemmas.Vp8

/-- The picture id round-trips for all 15-bit values (7-bit and 15-bit wire forms), together with the
S bit and partition id 0, whatever follows the descriptor. -/
theorem vpx_picture_id_roundtrip (s pic : Nat) (rest : Bytes) (hs : s < 2) (hp : pic < 32768) :
    ∃ bs, (D s pic).toBytes = .ok bs ∧ Vp8.parse (bs ++ rest) = .ok (D s pic, rest) :=
  ⟨hdr s pic, toBytes_D s pic hs hp, parse_hdr s pic rest hs hp⟩

/-- Every in-range descriptor (any combination of the I/L/T/K extensions, S < 2, PID < 16, 15-bit picture
id, 8-bit TL0PICIDX, TID < 4, Y < 2, KEYIDX < 32) round-trips through `__bytes__` / `parse`, whatever
payload follows it. -/
theorem vpx_descriptor_roundtrip (d : Vp8.Descr) (rest : Bytes) (h : InRange d) :
    ∃ bs, d.toBytes = .ok bs ∧ Vp8.parse (bs ++ rest) = .ok (d, rest) :=
  ⟨wire d, toBytes_wire d h, parse_wire d rest h⟩

example : InRange ⟨1, 3, some 4711, some 200, some (3, 1), some 31⟩ := by
  refine ⟨by decide, by decide, ?_, ?_, ?_, ?_⟩ <;> intro x hx <;> cases hx <;> decide

/-- `_packetize` never raises for a 15-bit picture id, for any frame buffer. -/
theorem vp8_packetize_ok (buffer : Bytes) (pic : Nat) (hp : pic < 32768) :
    ∃ payloads, Vp8.packetize buffer pic = .ok payloads := by
  obtain ⟨cs, h, _⟩ := packetize_eq buffer pic hp
  exact ⟨_, h⟩

/-- Every payload is at most 1300 bytes (and carries at least one byte of the frame). -/
theorem vp8_size (buffer : Bytes) (pic : Nat) (hp : pic < 32768) (payloads : List Bytes)
    (h : Vp8.packetize buffer pic = .ok payloads) :
    ∀ p ∈ payloads, p.length ≤ 1300 ∧ (hdr 0 pic).length < p.length := by
  obtain ⟨cs, h', _, hsz, _⟩ := packetize_eq buffer pic hp
  rw [h] at h'; cases h'
  have hl : (hdr 1 pic).length = (hdr 0 pic).length := by rw [hdr_length, hdr_length]
  intro p hp'
  cases cs with
  | nil => simp [attach] at hp'
  | cons c cs =>
    simp only [attach, List.mem_cons, List.mem_map] at hp'
    rcases hp' with h1 | ⟨c', hc', h1⟩
    · subst h1
      have := hsz c (by simp)
      simp only [List.length_append, hl]; omega
    · subst h1
      have := hsz c' (by simp [hc'])
      simp only [List.length_append]; omega

/-- Depayloading all payloads in order and concatenating gives the frame buffer verbatim. -/
theorem vp8_lossless (buffer : Bytes) (pic : Nat) (hp : pic < 32768) (payloads : List Bytes)
    (h : Vp8.packetize buffer pic = .ok payloads) : Vp8.depayloadAll payloads = .ok buffer := by
  obtain ⟨cs, h', hfl, _⟩ := packetize_eq buffer pic hp
  rw [h] at h'; cases h'
  rw [depayloadAll_attach pic hp cs, hfl]

/-- Only the first payload of a frame is marked as partition start, every payload has partition id 0
and carries the frame's picture id (and nothing else); the data behind the descriptors is the frame. -/
theorem vp8_partition_start (buffer : Bytes) (pic : Nat) (hp : pic < 32768) (payloads : List Bytes)
    (h : Vp8.packetize buffer pic = .ok payloads) :
    (buffer = [] ∧ payloads = []) ∨
    ∃ (c : Bytes) (cs : List Bytes), c ++ cs.flatten = buffer ∧
      payloads.map Vp8.parse = .ok (D 1 pic, c) :: cs.map (fun x => .ok (D 0 pic, x)) := by
  obtain ⟨chunks, h', hfl, _⟩ := packetize_eq buffer pic hp
  rw [h] at h'; cases h'
  cases chunks with
  | nil => left; exact ⟨by simpa using hfl.symm, rfl⟩
  | cons c cs =>
    right
    refine ⟨c, cs, by simpa using hfl, ?_⟩
    simp only [attach, List.map_cons, List.map_map, parse_hdr 1 pic c (by omega) hp]
    congr 1
    apply List.map_congr_left
    intro x _
    exact parse_hdr 0 pic x (by omega) hp

/-- The frame is cut into the minimal number of payloads. -/
theorem vp8_count (buffer : Bytes) (pic : Nat) (hp : pic < 32768) (payloads : List Bytes)
    (h : Vp8.packetize buffer pic = .ok payloads) :
    payloads.length = (buffer.length + (1300 - (hdr 0 pic).length) - 1) / (1300 - (hdr 0 pic).length) := by
  obtain ⟨chunks, h', _, _, hlen⟩ := packetize_eq buffer pic hp
  rw [h] at h'; cases h'
  rw [← hlen]
  cases chunks <;> simp [attach]

example : Vp8.packetize [1, 2, 3] 300 = .ok [[0x90, 0x80, 0x81, 0x2c, 1, 2, 3]] := by decide
example : Vp8.parse [0x90, 0x80, 0x81, 0x2c, 1, 2, 3] = .ok (D 1 300, [1, 2, 3]) := by decide
example : Vp8.packetize [] 5 = .ok [] := by decide

end VP8

end Aiortc.Props.C16
