import Aiortc.Gen.Serial
import Aiortc.Gen.Sctp
import Aiortc.Gen.Rtp
/-!
# C17 — serial-number arithmetic (part 1: the laws of the regenerated comparison functions)

`Aiortc.Gen.uint16_*` / `uint32_*` / `tsn_*` are re-translated from `src/aiortc/utils.py` and
`rtcsctptransport.py` on every run, so these theorems are re-checked against what the code says now.
All statements quantify over *all* integers in the wire range (no enumeration).
-/
namespace Aiortc.Props.C17
open Aiortc.Gen

def R16 (a : Int) : Prop := 0 ≤ a ∧ a < 65536
def R32 (a : Int) : Prop := 0 ≤ a ∧ a < 4294967296

/-! ## 16-bit -/

/-- Characterisation: `a > b` in serial arithmetic iff the modular distance is in (0, half). -/
theorem uint16_gt_iff (a b : Int) (ha : R16 a) (hb : R16 b) :
    uint16_gt a b = true ↔ 0 < (a - b) % 65536 ∧ (a - b) % 65536 < 32768 := by
  unfold R16 at *; unfold uint16_gt
  simp only [Bool.or_eq_true, Bool.and_eq_true, decide_eq_true_eq]
  omega

theorem uint16_gt_irrefl (a : Int) : uint16_gt a a = false := by
  unfold uint16_gt; simp

/-- Antisymmetry for every pair that is not exactly half the space apart. -/
theorem uint16_gt_antisymm (a b : Int) (hne : a ≠ b)
    (hhalf : (a - b) % 65536 ≠ 32768) :
    uint16_gt a b = !uint16_gt b a := by
  unfold uint16_gt
  rw [Bool.eq_iff_iff]
  simp only [Bool.or_eq_true, Bool.and_eq_true, decide_eq_true_eq, Bool.not_eq_true',
    Bool.or_eq_false_iff, Bool.and_eq_false_iff, decide_eq_false_iff_not]
  omega

/-- Never both (even at exactly half the space). -/
theorem uint16_gt_asymm (a b : Int) (h : uint16_gt a b = true) : uint16_gt b a = false := by
  unfold uint16_gt at *
  simp only [Bool.or_eq_true, Bool.and_eq_true, decide_eq_true_eq, Bool.or_eq_false_iff,
    Bool.and_eq_false_iff, decide_eq_false_iff_not] at *
  omega

/-- Consistency with modular addition: adding `0 < k < half` gives a greater number. -/
theorem uint16_add_gt (a k : Int) (ha : R16 a) (hk : 0 < k) (hk' : k < 32768) :
    uint16_gt (uint16_add a k) a = true := by
  unfold R16 at *; unfold uint16_gt uint16_add
  simp only [Bool.or_eq_true, Bool.and_eq_true, decide_eq_true_eq]
  omega

theorem uint16_add_range (a k : Int) : R16 (uint16_add a k) := by
  unfold R16 uint16_add; omega

/-- Translation invariance: shifting both numbers by any `c` does not change the comparison. -/
theorem uint16_gt_shift (a b c : Int) (ha : R16 a) (hb : R16 b) :
    uint16_gt (uint16_add a c) (uint16_add b c) = uint16_gt a b := by
  unfold R16 at *; unfold uint16_gt uint16_add
  rw [Bool.eq_iff_iff]
  simp only [Bool.or_eq_true, Bool.and_eq_true, decide_eq_true_eq]
  omega

theorem uint16_gte_iff (a b : Int) : uint16_gte a b = (decide (a = b) || uint16_gt a b) := rfl

theorem uint16_gte_shift (a b c : Int) (ha : R16 a) (hb : R16 b) :
    uint16_gte (uint16_add a c) (uint16_add b c) = uint16_gte a b := by
  unfold uint16_gte
  rw [uint16_gt_shift a b c ha hb]
  congr 1
  unfold R16 at *; unfold uint16_add
  rw [Bool.eq_iff_iff]; simp only [decide_eq_true_eq]; omega

/-- Serial order restricted to a window shorter than half the space is transitive. -/
theorem uint16_gt_trans_window (a b c : Int) (ha : R16 a) (hb : R16 b) (hc : R16 c)
    (hab : uint16_gt a b = true) (hbc : uint16_gt b c = true)
    (hwin : (a - c) % 65536 < 32768) : uint16_gt a c = true := by
  rw [uint16_gt_iff a b ha hb] at hab
  rw [uint16_gt_iff b c hb hc] at hbc
  rw [uint16_gt_iff a c ha hc]
  unfold R16 at *
  omega

/-! ## 32-bit -/

theorem uint32_gt_iff (a b : Int) (ha : R32 a) (hb : R32 b) :
    uint32_gt a b = true ↔ 0 < (a - b) % 4294967296 ∧ (a - b) % 4294967296 < 2147483648 := by
  unfold R32 at *; unfold uint32_gt
  simp only [Bool.or_eq_true, Bool.and_eq_true, decide_eq_true_eq]
  omega

theorem uint32_gt_irrefl (a : Int) : uint32_gt a a = false := by
  unfold uint32_gt; simp

theorem uint32_gt_antisymm (a b : Int) (hne : a ≠ b)
    (hhalf : (a - b) % 4294967296 ≠ 2147483648) :
    uint32_gt a b = !uint32_gt b a := by
  unfold uint32_gt
  rw [Bool.eq_iff_iff]
  simp only [Bool.or_eq_true, Bool.and_eq_true, decide_eq_true_eq, Bool.not_eq_true',
    Bool.or_eq_false_iff, Bool.and_eq_false_iff, decide_eq_false_iff_not]
  omega

theorem uint32_gt_asymm (a b : Int) (h : uint32_gt a b = true) : uint32_gt b a = false := by
  unfold uint32_gt at *
  simp only [Bool.or_eq_true, Bool.and_eq_true, decide_eq_true_eq, Bool.or_eq_false_iff,
    Bool.and_eq_false_iff, decide_eq_false_iff_not] at *
  omega

theorem uint32_add_gt (a k : Int) (ha : R32 a) (hk : 0 < k) (hk' : k < 2147483648) :
    uint32_gt (uint32_add a k) a = true := by
  unfold R32 at *; unfold uint32_gt uint32_add
  simp only [Bool.or_eq_true, Bool.and_eq_true, decide_eq_true_eq]
  omega

theorem uint32_add_range (a k : Int) : R32 (uint32_add a k) := by
  unfold R32 uint32_add; omega

theorem uint32_gt_shift (a b c : Int) (ha : R32 a) (hb : R32 b) :
    uint32_gt (uint32_add a c) (uint32_add b c) = uint32_gt a b := by
  unfold R32 at *; unfold uint32_gt uint32_add
  rw [Bool.eq_iff_iff]
  simp only [Bool.or_eq_true, Bool.and_eq_true, decide_eq_true_eq]
  omega

theorem uint32_gte_iff (a b : Int) : uint32_gte a b = (decide (a = b) || uint32_gt a b) := rfl

theorem uint32_gte_shift (a b c : Int) (ha : R32 a) (hb : R32 b) :
    uint32_gte (uint32_add a c) (uint32_add b c) = uint32_gte a b := by
  unfold uint32_gte
  rw [uint32_gt_shift a b c ha hb]
  congr 1
  unfold R32 at *; unfold uint32_add
  rw [Bool.eq_iff_iff]; simp only [decide_eq_true_eq]; omega

theorem uint32_gt_trans_window (a b c : Int) (ha : R32 a) (hb : R32 b) (hc : R32 c)
    (hab : uint32_gt a b = true) (hbc : uint32_gt b c = true)
    (hwin : (a - c) % 4294967296 < 2147483648) : uint32_gt a c = true := by
  rw [uint32_gt_iff a b ha hb] at hab
  rw [uint32_gt_iff b c hb hc] at hbc
  rw [uint32_gt_iff a c ha hc]
  unfold R32 at *
  omega

/-! ## TSN successor / predecessor -/

theorem tsn_plus_one_eq (a : Int) : tsn_plus_one a = uint32_add a 1 := rfl

theorem tsn_minus_plus (a : Int) (ha : R32 a) : tsn_minus_one (tsn_plus_one a) = a := by
  unfold R32 at *; unfold tsn_minus_one tsn_plus_one; omega

theorem tsn_plus_minus (a : Int) (ha : R32 a) : tsn_plus_one (tsn_minus_one a) = a := by
  unfold R32 at *; unfold tsn_minus_one tsn_plus_one; omega

theorem tsn_plus_one_gt (a : Int) (ha : R32 a) : uint32_gt (tsn_plus_one a) a = true := by
  rw [tsn_plus_one_eq]; exact uint32_add_gt a 1 ha (by omega) (by omega)

/-! ## non-vacuity: the wrap point satisfies the hypotheses -/
example : R16 65535 ∧ R16 0 ∧ uint16_gt 0 65535 = true ∧ uint16_gt 65535 0 = false := by
  unfold R16; decide
example : R32 4294967295 ∧ uint32_gt (tsn_plus_one 4294967295) 4294967295 = true := by
  unfold R32; decide

end Aiortc.Props.C17
