import Aiortc.Lemmas.C17.MarkShift
import Aiortc.Lemmas.C17.StreamShift
import Aiortc.Lemmas.C17.PruneShift
import Aiortc.Lemmas.C17.RecvShift
import Aiortc.Lemmas.C17.EnqueueShift
import Aiortc.Lemmas.C17.AbandonShift
import Aiortc.Lemmas.C17.TransmitShift
import Aiortc.Lemmas.C17.ReceiveSackShift
import Aiortc.Lemmas.C17.NackShift
import Aiortc.Lemmas.C17.SenderShift
import Aiortc.Lemmas.C17.SenderRun
import Aiortc.Lemmas.C17.TsMapShift
import Aiortc.Lemmas.C17.JitterAdd
import Aiortc.Lemmas.C17.TxRun
import Aiortc.Lemmas.C17.Witness
/-!
# C17 part 2 — shift-equivariance: behaviour does not depend on where the sequence numbers start

`σ32 k x = (x + k) % 2^32`, `σ16 j x = (x + j) % 2^16` (`Lemmas/C17/ShiftDefs.lean`) for ANY integers `k`, `j`.
Each theorem has the form `step (σ state) (σ input) = (σ state', σ output)`, where `σ` touches
sequence-number-typed fields only — delivered messages, byte counts, flags, verdicts, timer events are
literally the same.  All operands are required to be in the wire range (`R32` / `R16`, spelled out by
`RxOk`, `InOk`, `CR`, `RecvOk`, `TxOk`, `NackOk`); the `example`s show the hypotheses hold at the wrap
point and that the statements are not vacuous there.

Receive side (TSN shift `k`, SSN shift `j`, independent): `shiftR`, `shiftRx`, `shiftIn`, `shiftRecv`.
Send side: `shiftS`, `shiftTx`, `shiftEv` — the SSN shift acts on ORDERED chunks only (an unordered chunk
carries SSN 0 whatever the stream counter is).
-/
namespace Aiortc.Props.C17Shift
open Aiortc Aiortc.Gen Aiortc.Sctp Aiortc.Props.C17 Aiortc.C17 Aiortc.Model Aiortc.Model.Video

/-! ## (1) SCTP receive side -/

/-- The sort key of `_sack_misordered_sorted` (distance from the cumulative TSN) ignores the origin. -/
theorem serialKey_shift (k base t : Int) : serialKey (σ32 k base) (σ32 k t) = serialKey base t :=
  Aiortc.C17.serialKey_shift k base t

theorem sortByKey_shift (k base : Int) (l : List Int) :
    sortByKey (σ32 k base) (l.map (σ32 k)) = (sortByKey base l).map (σ32 k) :=
  Aiortc.C17.sortByKey_shift k base l

theorem consolidate_shift (k last : Int) (l : List Int) (hl : ∀ x ∈ l, R32 x) :
    consolidate (σ32 k last) (l.map (σ32 k)) = σ32 k (consolidate last l) :=
  Aiortc.C17.consolidate_shift k last l hl

/-- `_mark_received`: same duplicate verdict, shifted `(last, misordered, duplicates)`. -/
theorem markReceived_shift (k : Int) (r : Rx) (tsn : Int) (hr : RxOk r) (ht : R32 tsn) :
    markReceived (shiftRx k r) (σ32 k tsn)
      = ((markReceived r tsn).1, shiftRx k (markReceived r tsn).2) :=
  Aiortc.C17.markReceived_shift k r tsn hr ht

theorem markReceived_keeps_range (r : Rx) (tsn : Int) (hr : RxOk r) (ht : R32 tsn) :
    RxOk (markReceived r tsn).2 := markReceived_ok r tsn hr ht

theorem insertLoop_shift (k j : Int) (c : RChunk) (l : List RChunk) (hc : CR c) (hl : ∀ x ∈ l, CR x) :
    insertLoop (shiftR k j c) (l.map (shiftR k j)) = (insertLoop c l).map (List.map (shiftR k j)) :=
  Aiortc.C17.insertLoop_shift k j c l hc hl

/-- `InboundStream.add_chunk` (including its AssertionError outcome). -/
theorem addChunk_shift (k j : Int) (s : InStream) (c : RChunk) (hs : InOk s) (hc : CR c) :
    (shiftIn k j s).addChunk (shiftR k j c) = omap (shiftIn k j) (s.addChunk c) :=
  Aiortc.C17.addChunk_shift k j s c hs hc

/-- One iteration of the `pop_messages` loop on two states related by the shifts: both stop, or both
continue into related states (same position, same output so far). -/
theorem popIter_shift {k j : Int} {a b : PopSt} (h : PopRel k j a b) :
    OptRel (PopRel k j) (popIter a) (popIter b) := popIter_rel h

/-- `InboundStream.pop_messages`: TSNs shifted by `k` and SSNs by `j` independently — the yielded
messages are IDENTICAL, the stream afterwards is the shifted stream. -/
theorem popMessages_shift (k j : Int) (s : InStream) (hs : InOk s) :
    (shiftIn k j s).popMessages = omap (fun r => (r.1, shiftIn k j r.2)) s.popMessages :=
  Aiortc.C17.popMessages_shift k j s hs

/-- `InboundStream.prune_chunks`: same bytes freed, shifted queue. -/
theorem pruneChunks_shift (k j : Int) (s : InStream) (tsn : Int) (hs : InOk s) (ht : R32 tsn) :
    (shiftIn k j s).pruneChunks (σ32 k tsn)
      = (shiftIn k j (s.pruneChunks tsn).1, (s.pruneChunks tsn).2) :=
  Aiortc.C17.pruneChunks_shift k j s tsn hs ht

/-- `_receive_data_chunk`: the messages handed to the application are identical. `StreamKnown`: the
stream exists already, or `j ≡ 0` (a stream created on demand expects SSN 0 in both runs). -/
theorem recvStep_shift (k j : Int) (r : Recv) (c : RChunk) (hr : RecvOk r) (hc : CR c)
    (hk : StreamKnown j r c.sid) :
    (shiftRecv k j r).step (shiftR k j c) = omap (fun p => (shiftRecv k j p.1, p.2)) (r.step c) :=
  step_shift k j r c hr hc hk

theorem recvStep_keeps_range (r r' : Recv) (c : RChunk) (out : List Msg) (hr : RecvOk r) (hc : CR c)
    (h : r.step c = .ok (r', out)) : RecvOk r' := step_ok r r' c out hr hc h

/-- **origin_independent** (pure receiver, whole run): the same arrival list with every TSN moved by `k`
and every SSN by `j`, from the correspondingly shifted state, delivers the same messages in the same
order (and, if the run fails, it fails the same way). -/
theorem origin_independent (k j : Int) (cs : List RChunk) (r : Recv) (hr : RecvOk r)
    (hcs : ∀ c ∈ cs, CR c) (hk : ∀ c ∈ cs, StreamKnown j r c.sid) :
    Recv.run (shiftRecv k j r) (cs.map (shiftR k j))
      = omap (fun p => (shiftRecv k j p.1, p.2)) (Recv.run r cs) :=
  run_shift k j cs r hr hcs hk

/-- The delivered messages alone. -/
theorem origin_independent_messages (k j : Int) (cs : List RChunk) (r : Recv) (hr : RecvOk r)
    (hcs : ∀ c ∈ cs, CR c) (hk : ∀ c ∈ cs, StreamKnown j r c.sid) :
    omap Prod.snd (Recv.run (shiftRecv k j r) (cs.map (shiftR k j))) = omap Prod.snd (Recv.run r cs) := by
  rw [run_shift k j cs r hr hcs hk]
  cases Recv.run r cs <;> rfl

/-- From the handshake state: ANY initial TSN gives the run of initial TSN `t0` (TSNs shifted only:
every stream starts at SSN 0). -/
theorem origin_independent_init (k t0 : Int) (cs : List RChunk) (hcs : ∀ c ∈ cs, CR c) :
    omap Prod.snd (Recv.run (Recv.init (σ32 k t0)) (cs.map (shiftR k 0)))
      = omap Prod.snd (Recv.run (Recv.init t0) cs) := by
  have hinit : Recv.init (σ32 k t0) = shiftRecv k 0 (Recv.init t0) := by
    simp only [Recv.init, shiftRecv, shiftRx, σ32_minus_one, List.map_nil]
  have hok : RecvOk (Recv.init t0) :=
    ⟨⟨minus_one_range _, fun x hx => by simp [Recv.init] at hx, fun x hx => by simp [Recv.init] at hx⟩,
     fun e he => by simp [Recv.init] at he⟩
  rw [hinit]
  exact origin_independent_messages k 0 cs _ hok hcs (fun _ _ => Or.inr rfl)

/-! ## (2) SCTP send side -/

/-- `_send`, fragmentation: same fragments, TSN origin moved by `k`, SSN (ordered only) by `j`. -/
theorem fragments_shift (k j : Int) (tsn : Int) (sid : Nat) (ssn : Int) (ppid : Nat) (ordered : Bool)
    (expiry maxRtx : Option Int) (n : Nat) (data : Bytes) (m : Nat) :
    fragments (σ32 k tsn) sid (ssnArg j ordered ssn) ppid ordered expiry maxRtx n data m
      = (fragments tsn sid ssn ppid ordered expiry maxRtx n data m).map (shiftS k j) :=
  Aiortc.C17.fragments_shift k j tsn sid ssn ppid ordered expiry maxRtx n data m

/-- `_send` up to `_transmit`. `SeqKnown`: unordered, or the stream's counter exists, or `j ≡ 0`. -/
theorem enqueue_shift (k j : Int) (t : Tx) (sid ppid : Nat) (data : Bytes) (expiry maxRtx : Option Int)
    (ordered : Bool) (h : SeqKnown j t sid ordered) :
    (shiftTx k j t).enqueue sid ppid data expiry maxRtx ordered
      = shiftTx k j (t.enqueue sid ppid data expiry maxRtx ordered) :=
  Aiortc.C17.enqueue_shift k j t sid ppid data expiry maxRtx ordered h

/-- TSNs covered by the gap blocks of a SACK and the highest of them. -/
theorem gapSeen_shift (k : Int) (cum : Int) (limit : Nat) (gaps : List (Nat × Nat)) :
    gapSeen (σ32 k cum) limit gaps
      = ((gapSeen cum limit gaps).1.map (σ32 k), σ32 k (gapSeen cum limit gaps).2) :=
  Aiortc.C17.gapSeen_shift k cum limit gaps

theorem ackLoop_shift (k j : Int) (ls : Int) (hls : R32 ls) (fl done db : Nat) (l : List SChunk)
    (hl : ∀ c ∈ l, R32 c.tsn) :
    ackLoop (σ32 k ls) fl done db (l.map (shiftS k j))
      = ((ackLoop ls fl done db l).1, (ackLoop ls fl done db l).2.1, (ackLoop ls fl done db l).2.2.1,
         (ackLoop ls fl done db l).2.2.2.map (shiftS k j)) :=
  Aiortc.C17.ackLoop_shift k j ls hls fl done db l hl

theorem htnaLoop_shift (k j : Int) (seen : List Int) (hs : Int) (hseen : ∀ x ∈ seen, R32 x)
    (hhs : R32 hs) (fl db : Nat) (hna : Int) (acc l : List SChunk) (hl : ∀ c ∈ l, R32 c.tsn) :
    htnaLoop (seen.map (σ32 k)) (σ32 k hs) fl db (σ32 k hna) (acc.map (shiftS k j)) (l.map (shiftS k j))
      = ((htnaLoop seen hs fl db hna acc l).1, (htnaLoop seen hs fl db hna acc l).2.1,
         σ32 k (htnaLoop seen hs fl db hna acc l).2.2.1,
         (htnaLoop seen hs fl db hna acc l).2.2.2.map (shiftS k j)) :=
  Aiortc.C17.htnaLoop_shift k j seen hs hseen hhs fl db hna acc l hl

/-- The miss-indication ("strike") loop, `_maybe_abandon` included. -/
theorem strikeLoop_shift (k j : Int) (seen : List Int) (hna now : Int) (hseen : ∀ x ∈ seen, R32 x)
    (hh : R32 hna) (fuel pos : Nat) (t : Tx) (loss : Bool) (ht : QOk t) :
    strikeLoop (seen.map (σ32 k)) (σ32 k hna) now fuel pos (shiftTx k j t) loss
      = (shiftTx k j (strikeLoop seen hna now fuel pos t loss).1,
         (strikeLoop seen hna now fuel pos t loss).2) :=
  Aiortc.C17.strikeLoop_shift k j seen hna now hseen hh fuel pos t loss ht

theorem maybeAbandon_shift (k j : Int) (t : Tx) (pos : Nat) (now : Int) :
    (shiftTx k j t).maybeAbandon pos now
      = ((t.maybeAbandon pos now).1, shiftTx k j (t.maybeAbandon pos now).2) :=
  Aiortc.C17.maybeAbandon_shift k j t pos now

/-- `_receive_sack_chunk`: same verdict (stale SACK ignored / processed / IndexError), shifted state
(cwnd, ssthresh, flight size, partial_bytes_acked, per-chunk flags unchanged), same T3 events. -/
theorem receiveSack_shift (k j : Int) (t : Tx) (cum : Int) (gaps : List (Nat × Nat)) (now : Int)
    (ht : TxOk t) (hc : R32 cum) :
    (shiftTx k j t).receiveSack (σ32 k cum) gaps now
      = omap (shiftSackOut k j) (t.receiveSack cum gaps now) :=
  Aiortc.C17.receiveSack_shift k j t cum gaps now ht hc

/-- `_transmit`: the same chunks leave, with shifted TSN / SSN (and the same FORWARD-TSN, shifted). -/
theorem transmit_shift (k j : Int) (t : Tx) :
    (shiftTx k j t).transmit = (shiftTx k j t.transmit.1, t.transmit.2.map (shiftEv k j)) :=
  Aiortc.C17.transmit_shift k j t

theorem popAbandoned_shift (k j : Int) (adv : Int) (streams : List (Nat × Int)) (needed : Bool)
    (l : List SChunk) :
    popAbandoned (σ32 k adv) (mapVals (σ16 j) streams) needed (l.map (shiftS k j))
      = (σ32 k (popAbandoned adv streams needed l).1,
         mapVals (σ16 j) (popAbandoned adv streams needed l).2.1,
         (popAbandoned adv streams needed l).2.2.1,
         (popAbandoned adv streams needed l).2.2.2.map (shiftS k j)) :=
  Aiortc.C17.popAbandoned_shift k j adv streams needed l

/-- `_update_advanced_peer_ack_point` (prepares the FORWARD-TSN: cumulative TSN by `k`, SSNs by `j`). -/
theorem updateAdvAck_shift (k j : Int) (t : Tx) (h1 : R32 t.lastSacked) (h2 : R32 t.advAck) :
    (shiftTx k j t).updateAdvAck = shiftTx k j t.updateAdvAck :=
  Aiortc.C17.updateAdvAck_shift k j t h1 h2

/-- `_t3_expired` (up to the `_transmit` it schedules). -/
theorem t3Expired_shift (k j : Int) (t : Tx) (now : Int) (h1 : R32 t.lastSacked) (h2 : R32 t.advAck) :
    (shiftTx k j t).t3Expired now = shiftTx k j (t.t3Expired now) :=
  Aiortc.C17.t3Expired_shift k j t now h1 h2

/-- One sender command (`_send` / SACK arrival / `_transmit` / T3 expiry). -/
theorem txStep_shift (k j : Int) (t : Tx) (c : TxCmd) (h : TxOk t) (hc : CmdOk j t c) :
    txStep (shiftTx k j t) (shiftCmd k c) = omap (shiftStepOut k j) (txStep t c) :=
  Aiortc.C17.txStep_shift k j t c h hc

/-- The range invariant `TxOk` is kept by every command, and stream counters are never forgotten. -/
theorem txStep_keeps_range (t : Tx) (c : TxCmd) (r : Tx × List TxEv) (h : TxOk t)
    (hc : ∀ cum gaps now, c = .sack cum gaps now → R32 cum) (hr : txStep t c = .ok r) :
    TxOk r.1 ∧ ∀ sid, (dictGet t.streamSeq sid).isSome → (dictGet r.1.streamSeq sid).isSome :=
  txStep_ok t c r h hc hr

/-- **Whole runs of the sender**, any interleaving of `_send`, SACK arrivals, `_transmit` and T3 expiries:
with every SACK's cumulative TSN moved by `k`, from the shifted state, the same events come out — the
same DATA chunks (TSN by `k`, ordered SSN by `j`), the same FORWARD-TSNs, the same timer starts/stops. -/
theorem sender_origin_independent (k j : Int) (cs : List TxCmd) (t : Tx) (h : TxOk t) (hc : CmdsOk j t cs) :
    txRun (shiftTx k j t) (cs.map (shiftCmd k)) = omap (shiftStepOut k j) (txRun t cs) :=
  txRun_shift k j cs t h hc

/-! ## (3) RTP side -/

/-- `NackGenerator.add`: same `missed` verdict, shifted `max_seq` and missing set. -/
theorem nackAdd_shift (k : Int) (g : NackGen) (sn : Int) (hg : NackOk g) (hs : R16 sn) :
    (shiftNack k g).add (σ16 k sn) = omap (fun p => (shiftNack k p.1, p.2)) (g.add sn) :=
  Aiortc.C17.nackAdd_shift k g sn hg hs

/-- Whole arrival sequences through the NACK generator. -/
theorem nack_origin_independent (k : Int) (sns : List Int) (g : NackGen) (hg : NackOk g)
    (hs : ∀ x ∈ sns, R16 x) :
    nackRun (shiftNack k g) (sns.map (σ16 k)) = omap (fun p => (shiftNack k p.1, p.2)) (nackRun g sns) :=
  nackRun_shift k sns g hg hs

/-- The retransmission-history slot (`sequence_number % 128`) of a shifted sequence number is the slot
rotated by `k` — for every integer `x`, `k` (128 divides 2^16). -/
theorem history_slot_shift (k x : Int) : slotOfSeq (σ16 k x) = rotSlot k (slotOfSeq x) :=
  slotOfSeq_shift k x

theorem history_size_is_128 : RTP_HISTORY_SIZE = 128 := history_size_const

/-- One encoded frame through the `_run_rtp` packet loop: the same packets with sequence numbers moved by
`k` and timestamps by `m` (= shift of `timestamp_origin`); the history afterwards is the rotated one. -/
theorem sendFrame_shift (k r m : Int) (cfg : SenderCfg) (s : Sender) (encTs : Int) (pls : List Bytes)
    (hs : R16 s.seq) (hh : HistOk s.history) :
    sendFrame (shiftCfg m cfg) (shiftSender k r m s) encTs pls
      = (shiftSender k r m (sendFrame cfg s encTs pls).1, (sendFrame cfg s encTs pls).2.map (shiftPkt k m)) :=
  Aiortc.C17.sendFrame_shift k r m cfg s encTs pls hs hh

/-- The history finds the same packet for the shifted sequence number (and nothing iff nothing). -/
theorem histLookup_shift (k r m : Int) (s : Sender) (sn : Int) (hsn : R16 sn) (hh : HistOk s.history) :
    histLookup (shiftSender k r m s) (σ16 k sn) = (histLookup s sn).map (shiftPkt k m) :=
  Aiortc.C17.histLookup_shift k r m s sn hsn hh

/-- `histLookup` is what `_retransmit` sends (wrapped by `rtxOut` when RTX is negotiated). -/
theorem retransmit_sends_lookup (cfg : SenderCfg) (s : Sender) (sn : Int) :
    (retransmit cfg s sn).2 = (histLookup s sn).toList.map (rtxOut cfg s.rtxSeq) :=
  retransmit_out cfg s sn

/-- `_retransmit`: shifted state; the packet sent is the shifted source packet, RTX-wrapped with the
shifted RTX sequence number (`r`). -/
theorem retransmit_shift (k r m : Int) (cfg : SenderCfg) (s : Sender) (sn : Int) (hsn : R16 sn)
    (hh : HistOk s.history) :
    retransmit cfg (shiftSender k r m s) (σ16 k sn)
      = (shiftSender k r m (retransmit cfg s sn).1,
         (histLookup s sn).toList.map fun p => rtxOut cfg (σ16 r s.rtxSeq) (shiftPkt k m p)) :=
  Aiortc.C17.retransmit_shift k r m cfg s sn hsn hh

/-- A whole NACK without RTX: the same packets are sent again. -/
theorem handleNack_shift_plain (k r m : Int) (cfg : SenderCfg) (hc : cfg.rtxPt = none) (xs : List Int)
    (s : Sender) (hx : ∀ x ∈ xs, R16 x) (hh : HistOk s.history) :
    handleNack cfg (shiftSender k r m s) (xs.map (σ16 k))
      = (shiftSender k r m (handleNack cfg s xs).1, (handleNack cfg s xs).2.map (shiftPkt k m)) :=
  Aiortc.C17.handleNack_shift_plain k r m cfg hc xs s hx hh

/-! ### Whole histories of the RTP sender (`Lemmas/C17/SenderRun.lean`)

A history is a list of `SOp`s (an encoded frame through the `_run_rtp` loop / an RTCP NACK through
`_handle_rtcp_packet`); `sRun` runs it on the model functions `sendFrame` / `handleNack` (what the `video sender`
driver request executes, tied to the real `RTCRtpSender` by the `sender-origin` component from origins at the wrap);
`evRun` is the same history as events (`SEv.sent p` / `SEv.resent rtxSeq p`), `render` = `rtxOut` makes wire
packets of them. -/

/-- The wire output of a history is the rendering of its events. -/
theorem rtp_sender_wire_is_rendering (cfg : SenderCfg) (ops : List SOp) (s : Sender) :
    sRun cfg s ops = (evRun cfg s ops).map (List.map (render cfg)) := sRun_render cfg ops s

/-- **Whole histories of the RTP sender**: sequence-number origin moved by `k`, RTX sequence-number origin by
`r`, timestamp origin by `m`, the NACKed numbers moved by `k`: the same events in the same order — the same
packets are (re)sent with their sequence number moved by `k` and timestamp by `m`, every retransmission uses the
RTX sequence number moved by `r`, and a NACK that is ignored stays ignored. -/
theorem rtp_sender_origin_independent (k r m : Int) (cfg : SenderCfg) (ops : List SOp) (s : Sender)
    (hops : ∀ op ∈ ops, OpOk op) (h : SOk s) :
    evRun (shiftCfg m cfg) (shiftSender k r m s) (ops.map (shiftOp k))
      = (evRun cfg s ops).map (List.map (shiftSEv k r m)) := evRun_shift k r m cfg ops s hops h

/-- From a sender that has not sent anything, for ANY two triples of origins (the run from `(seq, rtxSeq, ts)` and
the run from the origins moved by `k`, `r`, `m`). -/
theorem rtp_sender_origin_independent_fresh (k r m : Int) (cfg : SenderCfg) (ops : List SOp) (seq rtxSeq : Int)
    (hops : ∀ op ∈ ops, OpOk op) (hseq : R16 seq) :
    evRun (shiftCfg m cfg) ⟨σ16 k seq, σ16 r rtxSeq, []⟩ (ops.map (shiftOp k))
      = (evRun cfg ⟨seq, rtxSeq, []⟩ ops).map (List.map (shiftSEv k r m)) :=
  evRun_shift k r m cfg ops ⟨seq, rtxSeq, []⟩ hops (fresh_ok seq rtxSeq hseq)

/-- The retransmission decisions — how many packets answer each operation on the wire — are the same. -/
theorem rtp_sender_decisions_origin_independent (k r m : Int) (cfg : SenderCfg) (ops : List SOp) (s : Sender)
    (hops : ∀ op ∈ ops, OpOk op) (h : SOk s) :
    (sRun (shiftCfg m cfg) (shiftSender k r m s) (ops.map (shiftOp k))).map List.length
      = (sRun cfg s ops).map List.length := sRun_lengths_shift k r m cfg ops s hops h

/-- Without RTX the wire packets themselves are the shifted packets. -/
theorem rtp_sender_origin_independent_plain (k r m : Int) (cfg : SenderCfg) (hc : cfg.rtxPt = none)
    (ops : List SOp) (s : Sender) (hops : ∀ op ∈ ops, OpOk op) (h : SOk s) :
    sRun (shiftCfg m cfg) (shiftSender k r m s) (ops.map (shiftOp k))
      = (sRun cfg s ops).map (List.map (shiftPkt k m)) := sRun_shift_plain k r m cfg hc ops s hops h

/-! ### TimestampMapper (`Lemmas/C17/TsMapShift.lean`): `_last_timestamp` moves by `m`, `_origin - _last_timestamp`
stays; the two runs may wrap at different calls, the values returned are the same -/

theorem tsmap_shift (m : Int) (s : TsMap) (t : Int) (ht : R32 t) (hs : TsMapOk s) :
    TsMap.map (shiftTs m s) (σ32 m t) = omap (fun r => (shiftTs m r.1, r.2)) (TsMap.map s t) :=
  tsMap_shift m s t ht hs

/-- A fresh `TimestampMapper` returns the same values for ANY sequence of 32-bit timestamps (monotone or not)
and the sequence with every timestamp moved by `m`. -/
theorem tsmap_origin_independent (m : Int) (ts : List Int) (hts : ∀ t ∈ ts, R32 t) :
    tsMapAll TsMap.init (ts.map (σ32 m)) = tsMapAll TsMap.init ts := by
  have h := tsMapAll_shift m ts TsMap.init hts tsInit_ok
  rwa [tsInit_shift] at h

/-! ### JitterBuffer: the packet array is rotated by `k mod capacity` (`shiftJB`), timestamps move by `m` -/

/-- `x % capacity` of a shifted sequence number is the rotated slot (capacity divides 2^16). -/
theorem jitter_slot_shift (k m : Int) (jb : Jitter.JB) (x : Int) (h : JBOk jb) :
    Jitter.slotOf (shiftJB k m jb) (σ16 k x) = omap (rot k jb.capacity) (Jitter.slotOf jb x) :=
  slotOf_shift k m jb x (σ16 k x) (σ16_mod k x _ h.dvd)

theorem jitter_remove_shift (k m : Int) (jb : Jitter.JB) (count : Nat) (h : JBOk jb) :
    Jitter.remove (shiftJB k m jb) count = omap (shiftJB k m) (Jitter.remove jb count) :=
  remove_shift k m jb count h

theorem jitter_smartRemove_shift (k m : Int) (jb : Jitter.JB) (count : Int) (h : JBOk jb) :
    Jitter.smartRemove (shiftJB k m jb) count
      = omap (fun r => (shiftJB k m r.1, r.2)) (Jitter.smartRemove jb count) :=
  smartRemove_shift k m jb count h

/-- `_remove_frame`: the same frame (payload identical, timestamp moved by `m`) from the same packets. -/
theorem jitter_removeFrame_shift (k m : Int) (jb : Jitter.JB) (sn sn' : Int) (h : JBOk jb) :
    Jitter.removeFrame (shiftJB k m jb) sn' = omap (shiftRFOut k m) (Jitter.removeFrame jb sn) :=
  removeFrame_shift k m jb sn sn' h

/-- `JitterBuffer.add`: same PLI flag, same frame, rotated buffer (also the same exception, if any). -/
theorem jitter_add_shift (k m : Int) (jb : Jitter.JB) (p : Jitter.Packet) (h : JBOk jb) (hp : R32 p.ts) :
    Jitter.add (shiftJB k m jb) (shiftP k m p) = omap (shiftAddOut k m) (Jitter.add jb p) :=
  add_shift k m jb p h hp

theorem jitter_add_keeps_shape (jb : Jitter.JB) (p : Jitter.Packet) (o : Jitter.AddOut) (h : JBOk jb)
    (hp : R32 p.ts) (hr : Jitter.add jb p = .ok o) : JBOk o.jb := add_ok jb p o h hp hr

/-- **Whole arrival lists through the jitter buffer**: every sequence number moved by `k`, every timestamp
by `m` — the same PLI flags and the same frames in the same order. -/
theorem jitter_origin_independent (k m : Int) (ps : List Jitter.Packet) (jb : Jitter.JB) (h : JBOk jb)
    (hp : ∀ p ∈ ps, R32 p.ts) :
    Jitter.run (shiftJB k m jb) (ps.map (shiftP k m))
      = omap (fun r => (shiftJB k m r.1, r.2.map (shiftObs m))) (Jitter.run jb ps) :=
  jitterRun_shift k m ps jb h hp

/-- From a freshly constructed buffer (any capacity that is a positive divisor of 2^16, e.g. the 128 of
video and the 16 of audio receivers): the shifted run starts from the SAME buffer. -/
theorem jitter_origin_independent_fresh (k m : Int) (capacity : Nat) (prefetch : Int) (isVideo : Bool)
    (jb : Jitter.JB) (hc : 0 < capacity) (hd : (capacity : Int) ∣ 65536)
    (hmk : Jitter.mk capacity prefetch isVideo = .ok jb) (ps : List Jitter.Packet) (hp : ∀ p ∈ ps, R32 p.ts) :
    omap (fun r => r.2) (Jitter.run jb (ps.map (shiftP k m)))
      = omap (fun r => r.2.map (shiftObs m)) (Jitter.run jb ps) := by
  have h := mk_ok capacity prefetch isVideo jb hc hd hmk
  have hrun := jitterRun_shift k m ps jb h.1 hp
  rw [h.2 k m] at hrun
  rw [hrun]
  cases Jitter.run jb ps <;> rfl

/-! ## non-vacuity: the hypotheses hold AT the wrap point, and the runs there do something

`rWrap`, `csWrap`, `tWrap`, `tSend`, `gWrap` are in `Lemmas/C17/Witness.lean`. -/

-- receiver: cumulative TSN 2^32-2, expected SSN 65535; four chunks arrive reordered across both wraps
example : RecvOk rWrap := by
  refine ⟨⟨by unfold R32; decide, by simp [rWrap], by simp [rWrap]⟩, ?_⟩
  intro e he
  simp [rWrap] at he
  subst he
  exact ⟨by simp, by unfold R16; decide⟩
example : ∀ c ∈ csWrap, CR c := by
  intro c hc
  simp [csWrap] at hc
  rcases hc with h | h | h | h <;> subst h <;> (unfold CR R32 R16; decide)
example : ∀ c ∈ csWrap, StreamKnown 12345 rWrap c.sid := by
  intro c hc
  simp [csWrap] at hc
  rcases hc with h | h | h | h <;> subst h <;> exact Or.inl (by decide)
-- three messages are delivered in SSN order across the wrap …
example : omap Prod.snd (Recv.run rWrap csWrap)
    = .ok [⟨0, 51, [1]⟩, ⟨0, 51, [2]⟩, ⟨0, 51, [3, 4]⟩] := by decide
-- … and the same three from a small origin (k = 7, j = 3 move the wrap point away: TSNs 5,6,7,8 / SSNs 2,3,4)
example : omap Prod.snd (Recv.run (shiftRecv 7 3 rWrap) (csWrap.map (shiftR 7 3)))
    = .ok [⟨0, 51, [1]⟩, ⟨0, 51, [2]⟩, ⟨0, 51, [3, 4]⟩] := by decide
example : (shiftRecv 7 3 rWrap).rx.last = 5 ∧ (csWrap.map (shiftR 7 3)).map (·.tsn) = [7, 6, 9, 8] := by decide
-- `_mark_received` at the wrap: misordered {0, 1} waiting, 2^32-1 arrives, the cumulative TSN jumps to 1
example : RxOk ⟨4294967294, [0, 1], []⟩ ∧ R32 4294967295
    ∧ markReceived ⟨4294967294, [0, 1], []⟩ 4294967295 = (false, ⟨1, [], []⟩) := by
  refine ⟨⟨by unfold R32; decide, ?_, by simp⟩, by unfold R32; decide, by decide⟩
  intro x hx; simp at hx; rcases hx with h | h <;> subst h <;> (unfold R32; decide)
-- sender: SACK with cumulative TSN 2^32-1 and a gap block for TSN 1 while [2^32-2, 2^32-1, 0, 1] are in flight
example : TxOk tWrap := by
  refine ⟨by unfold R32; decide, by unfold R32; decide, ?_, by simp [tWrap], ?_⟩
  · intro c hc
    simp [tWrap] at hc
    rcases hc with h | h | h | h <;> subst h <;> (unfold R32; decide)
  · intro e he; simp [tWrap] at he
example : R32 4294967295 ∧
    omap (Option.map fun p => (p.1.sentQ.map (·.tsn), p.1.lastSacked, p.1.flight, p.2))
      (tWrap.receiveSack 4294967295 [(2, 2)] 0)
    = .ok (some ([0, 1], 4294967295, 1, [TxEv.t3cancel, TxEv.t3start])) := by
  refine ⟨by unfold R32; decide, by decide⟩
-- a whole sender run from `tWrap`: SACK across the wrap, `_send`, `_transmit`, T3 expiry
example : CmdsOk 999 tWrap cmdsW := by
  intro c hc
  simp [cmdsW] at hc
  rcases hc with h | h | h | h <;> subst h
  · show R32 4294967295; unfold R32; decide
  · exact Or.inr (Or.inl (by decide))
  · trivial
  · trivial
example : omap (fun r => (r.2.map evTag, r.1.localTsn, r.1.sentQ.map SChunk.tsn, r.1.cwnd)) (txRun tWrap cmdsW)
    = .ok ([(-3, -3), (-2, -2), (2, 2)], 3, [0, 1, 2], 1200) := by decide
-- `_send` of a 2-fragment ordered message: TSNs 2^32-1, 0 and SSN 65535; the counters wrap to 1 and 0
example : SeqKnown 999 tSend 0 true := Or.inr (Or.inl (by decide))
set_option maxRecDepth 100000 in
example : ((tSend.enqueue 0 51 (List.replicate 1300 0) none none true).outQ.map fun c => (c.tsn, c.ssn, c.flags))
      = [(4294967295, 65535, 2), (0, 65535, 1)]
    ∧ (tSend.enqueue 0 51 (List.replicate 1300 0) none none true).localTsn = 1
    ∧ (tSend.enqueue 0 51 (List.replicate 1300 0) none none true).streamSeq = [(0, 0)] := by decide
-- NACK generator: highest 65533, 65532 missing; 1 arrives (65534, 65535, 0 become missing), then 65535, 0
example : NackOk gWrap ∧ (∀ x ∈ [1, 65535, 0], R16 x) := by
  refine ⟨⟨?_, ?_⟩, ?_⟩
  · intro m hm; simp [gWrap] at hm; subst hm; unfold R16; decide
  · intro x hx; simp [gWrap] at hx; subst hx; unfold R16; decide
  · intro x hx; simp at hx; rcases hx with h | h | h <;> subst h <;> (unfold R16; decide)
example : nackRun gWrap [1, 65535, 0] = .ok (⟨some 1, [65532, 65534]⟩, [true, false, false]) := by decide

-- RTP sender at the wrap: next sequence number 65535, three packets; then 65535 and 0 are NACKed
example : R16 sWrap.seq ∧ HistOk sWrap.history := by
  refine ⟨by unfold R16; decide, ?_⟩
  intro e he; simp [sWrap] at he
example : ((sendFrame cfgW sWrap 3000 [[1], [2], [3]]).2.map fun p => (p.sequenceNumber, p.timestamp, p.marker))
      = [(65535, 704, 0), (0, 704, 0), (1, 704, 1)]
    ∧ (sendFrame cfgW sWrap 3000 [[1], [2], [3]]).1.seq = 2
    ∧ ((handleNack cfgW (sendFrame cfgW sWrap 3000 [[1], [2], [3]]).1 [65535, 0, 7]).2.map (·.sequenceNumber))
      = [65535, 0] := by decide

-- jitter buffer (capacity 16): sequence numbers 65534, 65535, 0, 1, 2 and a timestamp that wraps 2^32
example : ∃ jb, Jitter.mk 16 0 true = .ok jb ∧ JBOk jb ∧ (∀ p ∈ psWrap, R32 p.ts) := by
  refine ⟨_, rfl, (mk_ok 16 0 true _ (by decide) ⟨4096, by decide⟩ rfl).1, ?_⟩
  intro p hp
  simp [psWrap] at hp
  rcases hp with h | h | h | h | h <;> subst h <;> (unfold R32; decide)
example : omap (fun r => r.2) ((Jitter.mk 16 0 true).bind fun jb => Jitter.run jb psWrap)
    = .ok [(false, none), (false, none), (false, some ⟨[1, 2], 4294966296⟩), (false, none),
           (false, some ⟨[3, 4], 1000⟩)] := by decide
-- the same pattern from a small origin (k = 10, m = 2000): same frames, timestamps moved by 2000
example : omap (fun r => r.2) ((Jitter.mk 16 0 true).bind fun jb => Jitter.run jb (psWrap.map (shiftP 10 2000)))
    = .ok [(false, none), (false, none), (false, some ⟨[1, 2], 1000⟩), (false, none),
           (false, some ⟨[3, 4], 3000⟩)] := by decide

-- RTP sender history across the wrap (RTX negotiated): a frame of three packets from 65535, a NACK for 65535, 0
-- and a number never sent, 127 more packets, then the packets 127 / 128 / 129 positions back are NACKed: the one
-- 127 back (sequence number 1) is still in the history, 0 and 65535 — sent before / at the wrap — are not
example : SOk sWrap ∧ (∀ op ∈ opsWrap, OpOk op) := by
  refine ⟨fresh_ok 65535 65535 (by unfold R16; decide), ?_⟩
  intro op hop
  simp only [opsWrap, List.mem_cons, List.not_mem_nil, or_false] at hop
  rcases hop with h | h | h | h | h | h <;> subst h <;> (try trivial) <;>
    (intro x hx; simp at hx; (try rcases hx with h | h | h) <;> subst_vars <;> (unfold R16; decide))
set_option maxRecDepth 100000 in
example : (sRun cfgRtx sWrap opsWrap).map (List.map fun p => (p.payloadType, p.sequenceNumber, p.payload.take 2))
    = [[(96, 65535, [1]), (96, 0, [2]), (96, 1, [3])],
       [(97, 65535, [255, 255]), (97, 0, [0, 0])],
       (List.range 127).map (fun i => (96, i + 2, [7])),
       [(97, 1, [0, 1])], [], []] := by decide
-- the same history from origin 100 / RTX origin 7 (k = 101, r = 8): the same decisions
set_option maxRecDepth 100000 in
example : (sRun cfgRtx (shiftSender 101 8 0 sWrap) (opsWrap.map (shiftOp 101))).map List.length = [3, 2, 127, 1, 0, 0] := by
  decide
-- TimestampMapper: 2^32-3000, 0, 3000 (wraps at the second call) and the same offsets from 5 (never wraps)
example : tsMapAll TsMap.init [4294964296, 0, 3000] = .ok [0, 3000, 6000]
    ∧ tsMapAll TsMap.init ([4294964296, 0, 3000].map (σ32 3005)) = .ok [0, 3000, 6000]
    ∧ [4294964296, 0, 3000].map (σ32 3005) = [5, 3005, 6005] := by decide

end Aiortc.Props.C17Shift
