import Aiortc.Model.Stats
import Aiortc.Lemmas.Stats
import Aiortc.Lemmas.StatsRecv
/-!
# C18 — RTCP receiver reports carry correct loss/jitter figures that always fit the wire

Model: `Model/Stats.lean` (`StreamStatistics`, report construction of `_run_rtcp`,
`RtcpReceiverInfo.__bytes__`) **of the code with fixes/C18-*.patch applied**.
A history is a first packet `p0` followed by `evs : List Ev` (packets and report instants).
`Pkt.e` is the sequence number: in `run` the wire value is `e mod 2^16`, so a history of wire numbers
(`0 ≤ e < 2^16`) is run as is, and a history of *unwrapped* numbers (ghost) is run as the wire sees it.
`Valid p0.e evs` is the property's hypothesis "reordering within half the sequence space":
each `e` is within `[-2^15, 2^15)` of the running maximum.  `unwrapEvs` shows that every wire history has
exactly such a ghost, so the "never fails / fits" theorems need no hypothesis on the history at all.
-/
namespace Aiortc.Props.C18
open Aiortc Aiortc.Gen Aiortc.Model.Stats Aiortc.Lemmas.Stats

/-! ## constants of the regenerated code used below -/

theorem clamp_const : (Gen.PACKETS_LOST_MAX : Int) = 8388607 ∧ Gen.PACKETS_LOST_MIN = -8388608 := by decide

theorem clamp_def (x : Int) : clamp_packets_lost x = max (-8388608) (min x 8388607) := rfl

theorem half_const : uint16_gt 32767 0 = true ∧ uint16_gt 32768 0 = false ∧ uint16_gt 0 32769 = true := by decide

theorem rr_type_const : Gen.RTCP_RR = 201 := by decide

/-! ## 0. building a report never fails, for every history whatsoever -/

/-- Any sequence of packets (arbitrary integers as sequence numbers mod 2^16, timestamps, arrival ticks)
and report instants after a first packet: neither `add` nor the report construction raises. -/
theorem add_never_fails (p0 : Pkt) (evs : List Ev) :
    ∃ s infos, run init (.pkt p0 :: evs) = .ok (s, infos) :=
  ⟨_, _, run_all p0 evs⟩

/-! ## 1. packets received is exact (all histories: loss, duplicates, any reordering) -/

theorem received_exact (p0 : Pkt) (evs : List Ev) (s : Stats) (infos : List RrInfo)
    (h : run init (.pkt p0 :: evs) = .ok (s, infos)) :
    s.received = 1 + numPkts evs := by
  rw [run_all] at h
  injection h with h
  injection h with h1 _
  subst h1
  show (specRun (Spec.first p0) (unwrapEvs p0.e evs)).1.n = _
  rw [specRun_n, numPkts_unwrap]; rfl

/-! ## 2. extended highest sequence number, packets expected, cumulative loss -/

/-- `cycles + max_seq` is the highest unwrapped sequence number, counted from the 2^16-block of the first
packet: wrap cycles are included, for any start and any number of cycles. -/
theorem extended_highest (p0 : Pkt) (evs : List Ev) (hv : Valid p0.e evs) :
    ∃ s infos, run init (.pkt p0 :: evs) = .ok (s, infos) ∧
      s.maxSeq = some (maxOf p0.e evs % 65536) ∧
      s.baseSeq = some (p0.e % 65536) ∧
      s.cycles + maxOf p0.e evs % 65536 = maxOf p0.e evs - (p0.e - p0.e % 65536) := by
  refine ⟨_, _, run_valid p0 evs hv, ?_, ?_, ?_⟩
  · show some ((specRun (Spec.first p0) evs).1.maxE % 65536) = _
    rw [specRun_maxE]; rfl
  · show some ((specRun (Spec.first p0) evs).1.e0 % 65536) = _
    rw [specRun_e0]; rfl
  · have := ext_conc (specRun (Spec.first p0) evs).1
    rw [specRun_maxE, specRun_e0] at this
    exact this

/-- `packets_expected` = extended highest − first + 1. -/
theorem expected_rfc3550 (p0 : Pkt) (evs : List Ev) (hv : Valid p0.e evs) :
    ∃ s infos, run init (.pkt p0 :: evs) = .ok (s, infos) ∧
      packetsExpected s = .ok (maxOf p0.e evs - p0.e + 1) := by
  refine ⟨_, _, run_valid p0 evs hv, ?_⟩
  rw [expected_conc, Spec.expected, specRun_maxE, specRun_e0]; rfl

/-- `packets_lost` = extended highest − first + 1 − received, saturated to the 24-bit signed field. -/
theorem lost_rfc3550 (p0 : Pkt) (evs : List Ev) (hv : Valid p0.e evs) :
    ∃ s infos, run init (.pkt p0 :: evs) = .ok (s, infos) ∧
      packetsLost s = .ok (max (-8388608) (min (maxOf p0.e evs - p0.e + 1 - (1 + numPkts evs)) 8388607)) := by
  refine ⟨_, _, run_valid p0 evs hv, ?_⟩
  rw [lost_conc, Spec.lost, Spec.expected, specRun_maxE, specRun_e0, specRun_n]; rfl

/-! ## 3. fraction lost per reporting interval (RFC 3550 A.3) -/

/-- The RFC formula, spelled out: `(lost_interval << 8) / expected_interval`, or 0 when nothing was
expected or nothing was lost in the interval. -/
theorem fractionOf_def (ei ri : Int) (hpos : 0 < ei) (hlost : 0 < ei - ri) :
    fractionOf ei ri = ((ei - ri) * 256) / ei := by
  unfold fractionOf
  have : ¬(ei = 0 ∨ ei - ri ≤ 0) := by omega
  simp only [this, if_false]
  exact Int.fdiv_eq_ediv_of_nonneg _ (by omega)

theorem fractionOf_zero (ei ri : Int) (h : ei = 0 ∨ ei - ri ≤ 0) : fractionOf ei ri = 0 := by
  unfold fractionOf; simp only [h, if_true]

/-- First report of a stream: the interval starts at the first packet. -/
theorem fraction_rfc3550_first (p0 : Pkt) (mid : List Pkt) (a b c : Int)
    (hv : Valid p0.e (mid.map Ev.pkt ++ [Ev.report a b c])) :
    ∃ s i, run init (.pkt p0 :: (mid.map Ev.pkt ++ [Ev.report a b c])) = .ok (s, [i]) ∧
      i.fractionLost = fractionOf (maxOf p0.e (mid.map Ev.pkt) - p0.e + 1) (1 + mid.length) := by
  refine ⟨conc (specRun (Spec.first p0) (mid.map Ev.pkt ++ [Ev.report a b c])).1,
    (specRun (Spec.first p0) (mid.map Ev.pkt)).1.info a b c, ?_, ?_⟩
  · rw [run_valid p0 _ hv]
    congr 2
    rw [specRun_append, specRun_pkts_infos]
    simp only [specRun, List.nil_append]
  · simp only [Spec.info, Spec.fraction, Spec.expected]
    rw [(specRun_pkts_priors _ _).1, (specRun_pkts_priors _ _).2]
    simp only [specRun_maxE, specRun_e0, specRun_n, numPkts_pkts, Spec.first]
    congr 1; omega

/-- Every later report: the interval runs from the previous report.  `pre` is everything before the
previous report, `mid` the packets between the two reports. -/
theorem fraction_rfc3550_interval (p0 : Pkt) (pre : List Ev) (mid : List Pkt) (a b c a' b' c' : Int)
    (hv : Valid p0.e (pre ++ [Ev.report a b c] ++ mid.map Ev.pkt ++ [Ev.report a' b' c'])) :
    ∃ s infos i, run init (.pkt p0 :: (pre ++ [Ev.report a b c] ++ mid.map Ev.pkt ++ [Ev.report a' b' c']))
        = .ok (s, infos ++ [i]) ∧
      i.fractionLost = fractionOf (maxOf p0.e (pre ++ mid.map Ev.pkt) - maxOf p0.e pre) mid.length := by
  refine ⟨conc (specRun (Spec.first p0) (pre ++ [Ev.report a b c] ++ mid.map Ev.pkt ++ [Ev.report a' b' c'])).1,
    (specRun (Spec.first p0) pre).2 ++ [(specRun (Spec.first p0) pre).1.info a b c],
    (specRun (specRun (Spec.first p0) pre).1.closeInterval (mid.map Ev.pkt)).1.info a' b' c', ?_, ?_⟩
  · rw [run_valid p0 _ hv]
    congr 2
    rw [specRun_append, specRun_append, specRun_append, specRun_pkts_infos]
    simp only [specRun, List.append_nil, List.append_assoc]
  · simp only [Spec.info, Spec.fraction, Spec.expected]
    rw [(specRun_pkts_priors _ _).1, (specRun_pkts_priors _ _).2]
    simp only [specRun_maxE, specRun_e0, specRun_n, numPkts_pkts, Spec.closeInterval, Spec.expected, maxOf_append,
      Spec.first]
    congr 1 <;> omega

/-- Whatever the history, the fraction of every report fits 8 bits (an in-order packet is needed to raise
`packets_expected`, so at least one packet is received in an interval that expects any). -/
theorem fraction_fits (p0 : Pkt) (evs : List Ev) (s : Stats) (infos : List RrInfo)
    (h : run init (.pkt p0 :: evs) = .ok (s, infos)) :
    ∀ i ∈ infos, 0 ≤ i.fractionLost ∧ i.fractionLost ≤ 255 := by
  rw [run_all] at h
  injection h with h
  injection h with _ h2
  subst h2
  have hfit : ∀ (l : List Ev) (g : Spec), g.WF → ∀ i ∈ (specRun g l).2, 0 ≤ i.fractionLost ∧ i.fractionLost ≤ 255 := by
    intro l; induction l with
    | nil => intro g _ i hi; simp [specRun] at hi
    | cons ev rest ih =>
      intro g hg i hi
      cases ev with
      | pkt p => exact ih _ (wf_add g p hg) i hi
      | report x y z =>
        simp only [specRun, List.mem_cons] at hi
        rcases hi with rfl | hi
        · exact fraction_range g hg
        · exact ih _ (wf_close g hg) i hi
  exact hfit _ _ (wf_first p0)

/-! ## 4. interarrival jitter (RFC 3550 A.8, 32-bit arithmetic) -/

/-- The estimator state is that of the specification machine run on the history … -/
theorem jitter_rfc3550 (p0 : Pkt) (evs : List Ev) (hv : Valid p0.e evs) :
    ∃ s infos, run init (.pkt p0 :: evs) = .ok (s, infos) ∧
      s.jitterQ4 = (specRun (Spec.first p0) evs).1.j ∧ jitter s = (specRun (Spec.first p0) evs).1.j / 16 :=
  ⟨_, _, run_valid p0 evs hv, rfl, rfl⟩

/-- … whose step is the A.8 recurrence: only an in-order packet (`e` above the extended maximum) whose
timestamp differs from the previous in-order packet's updates `J`, by
`J += |D| − ((J + 8) >> 4)` with `D = (arrival − prev_arrival) − (ts − prev_ts)` reduced to a signed
32-bit value; every in-order packet becomes the new reference point. -/
theorem jitter_recurrence (g : Spec) (p : Pkt) :
    (g.add p).j =
      (if p.e > g.maxE ∧ p.ts ≠ g.prevTs then
        g.j + (Int.natAbs (((p.arr - g.prevArr) - (p.ts - g.prevTs) + 2147483648) % 4294967296 - 2147483648)
               - (g.j + 8) / 16)
       else g.j) ∧
    ((g.add p).prevArr, (g.add p).prevTs) = (if p.e > g.maxE then (p.arr, p.ts) else (g.prevArr, g.prevTs)) := by
  unfold Spec.add Spec.jitterNext
  by_cases h1 : p.e > g.maxE <;> by_cases h2 : p.ts = g.prevTs <;>
    simp [h1, h2, jitterStep, absDiff, signed32]

/-- Timestamp (and arrival) differences are taken modulo 2^32: `|D|` computed from the 32-bit values equals
`|D|` computed from unwrapped timestamps, so a timestamp wrap between two packets changes nothing. -/
theorem jitter_mod32 (arr prevArr ts prevTs : Int) :
    absDiff (arr % 4294967296) (prevArr % 4294967296) (ts % 4294967296) (prevTs % 4294967296)
      = absDiff arr prevArr ts prevTs :=
  absDiff_mod arr prevArr ts prevTs

/-- When the true difference is small (`|D| < 2^31`, i.e. < 6.6 h at 90 kHz) the 32-bit value is the true one. -/
theorem jitter_small_exact (arr prevArr ts prevTs : Int)
    (h : -2147483648 ≤ (arr - prevArr) - (ts - prevTs) ∧ (arr - prevArr) - (ts - prevTs) < 2147483648) :
    absDiff arr prevArr ts prevTs = Int.natAbs ((arr - prevArr) - (ts - prevTs)) := by
  unfold absDiff; rw [signed32_id _ h]

/-- The estimator never leaves `[0, 2^35 + 7]`, whatever the clock does: the reported jitter is `< 2^32`. -/
theorem jitter_bounded (p0 : Pkt) (evs : List Ev) (s : Stats) (infos : List RrInfo)
    (h : run init (.pkt p0 :: evs) = .ok (s, infos)) :
    0 ≤ s.jitterQ4 ∧ s.jitterQ4 ≤ 34359738375 ∧ 0 ≤ jitter s ∧ jitter s < 4294967296 := by
  rw [run_all] at h
  injection h with h
  injection h with h1 _
  subst h1
  have hw := specRun_wf (unwrapEvs p0.e evs) _ (wf_first p0)
  have h3 := hw.j_lo
  have h4 := hw.j_hi
  simp only [jitter, conc]
  omega

/-! ## 5. every reported value fits its field: serialisation cannot raise -/

/-- For every history whatsoever and every report instant with a 32-bit SSRC / LSR / DLSR: the report is
built, every field is within its width, and `bytes(report)` is 24 bytes. -/
theorem report_fits (p0 : Pkt) (evs : List Ev) (hp : ParamsOk evs) :
    ∃ s infos, run init (.pkt p0 :: evs) = .ok (s, infos) ∧
      ∀ i ∈ infos, Fits i ∧ ∃ b, i.bytes = .ok b ∧ b.length = 24 := by
  refine ⟨_, _, run_all p0 evs, ?_⟩
  intro i hi
  have hf := specRun_fits (unwrapEvs p0.e evs) _ (wf_first p0) ((paramsOk_unwrap evs p0.e).2 hp) i hi
  exact ⟨hf, bytes_of_fits i hf⟩

/-- What the last report of a valid history carries, in terms of the history alone. -/
theorem report_values (p0 : Pkt) (pre : List Ev) (a b c : Int) (hv : Valid p0.e (pre ++ [Ev.report a b c])) :
    ∃ s infos i, run init (.pkt p0 :: (pre ++ [Ev.report a b c])) = .ok (s, infos ++ [i]) ∧
      i.ssrc = a ∧ i.lsr = b ∧ i.dlsr = c ∧
      i.packetsLost = max (-8388608) (min (maxOf p0.e pre - p0.e + 1 - (1 + numPkts pre)) 8388607) ∧
      i.highestSequence = (maxOf p0.e pre - (p0.e - p0.e % 65536)) % 4294967296 ∧
      i.jitter = (specRun (Spec.first p0) pre).1.j / 16 := by
  refine ⟨conc (specRun (Spec.first p0) (pre ++ [Ev.report a b c])).1, (specRun (Spec.first p0) pre).2,
    (specRun (Spec.first p0) pre).1.info a b c, ?_, rfl, rfl, rfl, ?_, ?_, rfl⟩
  · rw [run_valid p0 _ hv]
    congr 2
    rw [specRun_append]
    simp only [specRun]
  · simp only [Spec.info, Spec.lost, Spec.expected, specRun_maxE, specRun_e0, specRun_n]; rfl
  · simp only [Spec.info, specRun_maxE, specRun_e0]; rfl

/-- `lsr` as computed from any SR NTP timestamp fits 32 bits. -/
theorem lsr_fits (ntp : Int) : U32 (lsrOf ntp) := by
  unfold U32 lsrOf; omega

/-- `dlsr` as computed from any delay `num/den` (`den > 0`) fits 32 bits. -/
theorem dlsr_fits (num den : Int) (hden : 0 < den) : U32 (dlsrOf num den) := by
  unfold U32 dlsrOf
  split
  · rename_i h
    constructor
    · apply Int.ediv_nonneg <;> omega
    · apply Int.ediv_lt_of_lt_mul hden
      omega
  · omega

/-- The 24-bit loss field round-trips on its whole range (and `clamp_packets_lost` lands in it). -/
theorem packets_lost_roundtrip (n : Int) (h : -8388608 ≤ n ∧ n ≤ 8388607) :
    ∃ b, packPacketsLost? n = some b ∧ b.length = 3 ∧ unpackPacketsLost b = some n := by
  unfold packPacketsLost?
  have e : (-2147483648 ≤ n ∧ n < 2147483648) := by omega
  simp only [e, and_self, if_true]
  refine ⟨_, rfl, rfl, ?_⟩
  simp only [u32be, List.drop_succ_cons, List.drop_zero, unpackPacketsLost]
  congr 1
  by_cases hn : 0 ≤ n
  · have h1 : (n % 4294967296).toNat = n.toNat := by congr 1; omega
    rw [h1]
    split <;> omega
  · have h1 : ((n % 4294967296).toNat : Int) = n + 4294967296 := by omega
    split <;> omega

/-- `bytes(RtcpReceiverInfo)` succeeds exactly when the unsigned fields fit and `packets_lost` fits 32 bits
signed (outside 24 bits it is silently truncated — which is why the clamp matters). -/
theorem info_bytes_ok_iff (i : RrInfo) :
    (∃ b, i.bytes = .ok b) ↔
      (U32 i.ssrc ∧ (0 ≤ i.fractionLost ∧ i.fractionLost < 256) ∧
       (-2147483648 ≤ i.packetsLost ∧ i.packetsLost < 2147483648) ∧
       U32 i.highestSequence ∧ U32 i.jitter ∧ U32 i.lsr ∧ U32 i.dlsr) := by
  unfold U32 RrInfo.bytes packU32? packU8? packPacketsLost?
  constructor
  · intro ⟨b, hb⟩
    repeat' split at hb
    all_goals first | (cases hb) | skip
    all_goals simp_all
  · intro ⟨h1, h2, h3, h4, h5, h6, h7⟩
    simp only [h1, h2, h3, h4, h5, h6, h7, and_self, if_true]
    exact ⟨_, rfl⟩

/-! ## 6. the receiver: per-SSRC statistics, sender-report bookkeeping, the RR datagram -/

/-- `bytes(RtcpRrPacket)` for up to 31 fitting reports: header `0x80 | count`, packet type 201, length
field (in words, minus one) `1 + 6·count`, sender SSRC, then the 24-byte blocks: 8 + 24·count bytes in all. -/
theorem rr_packet_ok (ssrc : Int) (hs : U32 ssrc) (infos : List RrInfo) (hf : ∀ i ∈ infos, Fits i)
    (hc : infos.length ≤ 31) :
    ∃ body, concatBytes infos = .ok body ∧ body.length = 24 * infos.length ∧
      rrPacketBytes ssrc infos
        = .ok ((128 + infos.length) :: 201 :: (u16be (1 + 6 * infos.length) ++ (u32be ssrc.toNat ++ body))) :=
  rrPacketBytes_header ssrc hs infos hf hc

/-- From every reachable receiver state: feeding a packet, running one `_run_rtcp` iteration (with fewer
than 256 streams) and `getStats()` all succeed; a datagram that is sent has 8 + 24·streams bytes. -/
theorem receiver_never_fails (rtcp : Option Int) (hr : ∀ s, rtcp = some s → U32 s) (r : Receiver)
    (h : RReach rtcp r) :
    (∀ ssrc seq ts arr, U32 ssrc → (0 ≤ seq ∧ seq < 65536) → ∃ r', r.rtp ssrc seq ts arr = .ok r') ∧
    (∀ delays : List (Int × Int), (∀ d ∈ delays, 0 < d.2) → r.streams.length < 256 →
      ∃ out r', r.runRtcp rtcp delays = .ok (out, r') ∧
        ∀ b, out = some b → b.length = 8 + 24 * r.streams.length) ∧
    (∃ o, r.getStats = .ok o) := by
  have hg := reach_good rtcp hr r h
  refine ⟨?_, ?_, ?_⟩
  · intro ssrc seq ts arr hs hq
    obtain ⟨r', h1, _⟩ := rtp_good r hg ssrc seq ts arr hs hq
    exact ⟨r', h1⟩
  · intro delays hd hc
    obtain ⟨out, r', h1, _, _, h4⟩ := runRtcp_good r hg rtcp hr delays hd hc
    exact ⟨out, r', h1, h4⟩
  · exact statsLoop_good r.streams none hg.1

/-- Non-vacuity: a receiver that saw two SSRCs and a sender report is reachable. -/
example : ∃ r, RReach (some 1234) r ∧ r.streams.length = 2 ∧ r.lsr.length = 1 := by
  refine ⟨_, RReach.sr 5 (4294967296 * 65536) (RReach.rtp 6 65535 0 0 (RReach.rtp 5 65535 0 0 RReach.init ?_ ?_ rfl) ?_ ?_ rfl), ?_, ?_⟩
  all_goals first | (unfold U32; omega) | omega | rfl

/-! ## non-vacuity: the hypotheses are satisfiable by histories that exercise the wraps -/

/-- A history across the 16-bit wrap with loss, a duplicate and a late packet is `Valid`. -/
example : Valid 65534 [.pkt ⟨65535, 0, 0⟩, .pkt ⟨65537, 3000, 3000⟩, .pkt ⟨65536, 3000, 3100⟩,
    .pkt ⟨65537, 3000, 3200⟩, .report 1 0 0, .pkt ⟨98304, 6000, 6000⟩, .pkt ⟨65536, 0, 0⟩] := by
  simp [Valid, Window]; omega

example : ParamsOk [.pkt ⟨65535, 0, 0⟩, .report 4294967295 0 4294967295] := by
  simp [ParamsOk, U32]

/-- The DESIGN probe, shortened: packets 65534, 65535, 0, 1 across both the sequence and the timestamp wrap,
arriving exactly on time.  cycles = 65536, highest_sequence = 65537, jitter 0, nothing lost
(the pinned code reported highest_sequence = 1 and a jitter of 2^28 here). -/
example :
    run init [.pkt ⟨65534, 4294961296, 1000⟩, .pkt ⟨65535, 4294964296, 4000⟩, .pkt ⟨65536, 0, 7000⟩,
              .pkt ⟨65537, 3000, 10000⟩, .report 7 0 0]
      = .ok (⟨some 65534, some 1, 65536, 4, 0, some 10000, some 3000, 4, 4⟩,
             [⟨7, 0, 0, 65537, 0, 0, 0⟩]) := by decide

/-- Loss and a clock jump of 2^45 ticks: fraction 85/256, 1 lost, |D| wraps to 3000 instead of 2^45. -/
example :
    run init [.pkt ⟨10, 0, 0⟩, .pkt ⟨12, 3000, 35184372088832⟩, .report 1 2 3]
      = .ok (⟨some 10, some 12, 0, 2, 3000, some 35184372088832, some 3000, 3, 2⟩,
             [⟨1, 85, 1, 12, 187, 2, 3⟩]) := by decide

end Aiortc.Props.C18
