import Aiortc.Model.Ntp
import Aiortc.Model.Stats
/-!
# C18 (extension) — the NTP timestamp behind the `lsr` field

The receiver report's `lsr` is the middle 32 bits of the NTP timestamp of the last sender report
(`Model.Stats.lsrOf`), and that timestamp is produced on the sending side by `clock.datetime_to_ntp`.
These theorems cover the integer core of `clock.py` (`Model/Ntp.lean`) for every date from 1900 on:
the fraction word always fits 32 bits, the whole timestamp fits the 64-bit wire field exactly until the
NTP era ends (2^32 s after 1900), the conversion is monotone in time, `>> 32` recovers the seconds, `lsr`
is the low 16 bits of the seconds and the high 16 bits of the fraction, and `datetime_from_ntp` inverts
`datetime_to_ntp` to the microsecond and is total on every 64-bit value.
-/
namespace Aiortc.Props.C18Ntp
open Aiortc.Model.Ntp Aiortc.Model.Stats

/-- The fraction word fits 32 bits. -/
theorem low_lt (m : Nat) (hm : m < 1000000) : low m < 4294967296 := by
  unfold low; omega

/-- The fraction is the floor of `m / 10^6` in units of 2^-32 s: never ahead of the true time, less than one unit behind. -/
theorem low_floor (m : Nat) : low m * 1000000 ≤ m * 4294967296 ∧ m * 4294967296 < (low m + 1) * 1000000 := by
  unfold low; omega

/-- `(high << 32) | low` is `high · 2^32 + low`. -/
theorem toNtp_eq (d s m : Nat) (hm : m < 1000000) : toNtp d s m = high d s * 4294967296 + low m := by
  unfold toNtp
  rw [← Nat.shiftLeft_add_eq_or_of_lt (by simpa using low_lt m hm), Nat.shiftLeft_eq]

/-- `current_ntp_time() >> 32` (session ids of createOffer / createAnswer) is the whole seconds. -/
theorem toNtp_seconds (d s m : Nat) (hm : m < 1000000) : toNtp d s m >>> 32 = high d s := by
  have := low_lt m hm
  rw [toNtp_eq d s m hm, Nat.shiftRight_eq_div_pow]; omega

theorem toNtp_fraction (d s m : Nat) (hm : m < 1000000) : toNtp d s m &&& 0xFFFFFFFF = low m := by
  have := low_lt m hm
  have h : (0xFFFFFFFF : Nat) = 2 ^ 32 - 1 := by decide
  rw [toNtp_eq d s m hm, h, Nat.and_two_pow_sub_one_eq_mod]; omega

/-- The timestamp fits the 64-bit field of a sender report exactly while the seconds fit 32 bits (until 2036). -/
theorem toNtp_fits_iff (d s m : Nat) (hm : m < 1000000) :
    toNtp d s m < 18446744073709551616 ↔ high d s < 4294967296 := by
  have := low_lt m hm
  rw [toNtp_eq d s m hm]; omega

/-- Later instants get larger timestamps (lexicographic order on seconds, microseconds). -/
theorem toNtp_mono (d s m d' s' m' : Nat) (hm : m < 1000000) (hm' : m' < 1000000)
    (h : high d s < high d' s' ∨ (high d s = high d' s' ∧ m ≤ m')) : toNtp d s m ≤ toNtp d' s' m' := by
  have := low_lt m hm
  have := low_lt m' hm'
  rw [toNtp_eq d s m hm, toNtp_eq d' s' m' hm']
  rcases h with h | ⟨h, h'⟩
  · omega
  · have : low m ≤ low m' := by unfold low; omega
    omega

/-- Distinct seconds give distinct timestamps (strictness of the order in the seconds). -/
theorem toNtp_strict (d s m d' s' m' : Nat) (hm : m < 1000000) (hm' : m' < 1000000)
    (h : high d s < high d' s') : toNtp d s m < toNtp d' s' m' := by
  have := low_lt m hm
  have := low_lt m' hm'
  rw [toNtp_eq d s m hm, toNtp_eq d' s' m' hm']; omega

/-- The `lsr` a receiver derives from a sender's timestamp: low 16 bits of the seconds, high 16 bits of the fraction. -/
theorem lsr_of_toNtp (d s m : Nat) (hm : m < 1000000) :
    lsrOf (toNtp d s m : Nat) = ((high d s % 65536) * 65536 + low m / 65536 : Nat) := by
  have := low_lt m hm
  rw [toNtp_eq d s m hm]
  unfold lsrOf
  omega

theorem roundHalfEven_near (n k : Nat) (h1 : k * 4294967296 < n + 1000000) (h2 : n ≤ k * 4294967296) :
    roundHalfEven n 4294967296 = k := by
  unfold roundHalfEven
  split
  · omega
  · split
    · omega
    · split <;> omega

theorem roundHalfEven_le (n : Nat) (h : n < 4294967296 * 1000000) : roundHalfEven n 4294967296 ≤ 1000000 := by
  unfold roundHalfEven
  split
  · omega
  · split
    · omega
    · split <;> omega

/-- `datetime_from_ntp` undoes `datetime_to_ntp` to the microsecond, for every instant from 1900 on. -/
theorem from_to (d s m : Nat) (hs : s < 86400) (hm : m < 1000000) : fromNtp (toNtp d s m) = (d, s, m) := by
  have hf := low_floor m
  have hus : fromUs (toNtp d s m) = m := by
    unfold fromUs
    rw [toNtp_fraction d s m hm]
    exact roundHalfEven_near _ _ (by omega) (by omega)
  have htot : fromTotal (toNtp d s m) = d * 86400 + s := by
    unfold fromTotal
    rw [hus, toNtp_seconds d s m hm]; unfold high; omega
  unfold fromNtp
  rw [hus, htot]
  simp only [Prod.mk.injEq]
  omega

/-- `datetime_from_ntp` is total and normalised on every value (any SR a peer sends can be shown in getStats). -/
theorem fromNtp_normalised (ntp : Nat) : (fromNtp ntp).2.1 < 86400 ∧ (fromNtp ntp).2.2 < 1000000 := by
  unfold fromNtp; dsimp only; omega

/-- … and stays within `datetime`'s range for every 64-bit timestamp: at most 2^32 s after 1900. -/
theorem fromNtp_range (ntp : Nat) (h : ntp < 18446744073709551616) :
    (fromNtp ntp).1 * 86400 + (fromNtp ntp).2.1 ≤ 4294967296 := by
  have hm : ntp &&& 0xFFFFFFFF < 4294967296 := by
    have h' : (0xFFFFFFFF : Nat) = 2 ^ 32 - 1 := by decide
    rw [h', Nat.and_two_pow_sub_one_eq_mod]; omega
  have hs : ntp >>> 32 < 4294967296 := by rw [Nat.shiftRight_eq_div_pow]; omega
  have hr : fromUs ntp ≤ 1000000 := by
    unfold fromUs; exact roundHalfEven_le _ (by omega)
  have ht : fromTotal ntp ≤ 4294967296 := by unfold fromTotal; omega
  unfold fromNtp; dsimp only
  omega

/-- The abs-send-time a sender writes fits the 24-bit header-extension field for every clock value whatsoever
(also after the NTP era: packing it never fails). -/
theorem absSendTime_fits (ntp : Nat) : absSendTime ntp < 16777216 := by
  unfold absSendTime
  have h : (0x00FFFFFF : Nat) = 2 ^ 24 - 1 := by decide
  rw [h, Nat.and_two_pow_sub_one_eq_mod]; omega

/-- … and is the 6.18 fixed-point image of the instant: low 6 bits of the seconds, high 18 bits of the fraction. -/
theorem absSendTime_of_toNtp (d s m : Nat) (hm : m < 1000000) :
    absSendTime (toNtp d s m) = (high d s % 64) * 262144 + low m / 16384 := by
  have := low_lt m hm
  unfold absSendTime
  have h : (0x00FFFFFF : Nat) = 2 ^ 24 - 1 := by decide
  rw [toNtp_eq d s m hm, h, Nat.and_two_pow_sub_one_eq_mod, Nat.shiftRight_eq_div_pow]; omega

/-- abs-send-time is periodic in 64 s: two instants a multiple of 64 s apart with equal microseconds collide, nothing else
of the seconds matters (what the receiver's inter-arrival filter has to unwrap). -/
theorem absSendTime_period (d s d' s' m : Nat) (hm : m < 1000000) (h : high d s % 64 = high d' s' % 64) :
    absSendTime (toNtp d s m) = absSendTime (toNtp d' s' m) := by
  rw [absSendTime_of_toNtp d s m hm, absSendTime_of_toNtp d' s' m hm, h]

/-! non-vacuity / concrete anchors -/
example : toNtp 45920 43200 500000 = 17040416752007118848 := by decide
example : fromNtp 17040416752007118848 = (45920, 43200, 500000) := by decide
example : fromNtp 18446744073709551615 = (49710, 23296, 0) := by decide
example : absSendTime 17040416752007118848 = 131072 := by decide
example : fromNtp 33554432 = (0, 0, 7812) := by decide  -- an exact tie 7812.5: rounds to even

end Aiortc.Props.C18Ntp
