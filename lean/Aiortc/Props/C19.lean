import Aiortc.Lemmas.CloseLive
import Aiortc.Model.CloseSetIter
/-! # C19 — close() always completes, is idempotent and leaves nothing running

Theorems about `Model/Close.lean` (the shutdown protocol of `RTCPeerConnection.close()` with fixes/C19-*.patch applied),
for ALL configurations (any number of transceivers, transports, data channels, BUNDLE or not), ALL histories before the
call and ALL schedules after it (any enabled action may be next; `close()` may be called at any step, any number of
times; negotiation calls may be in flight).

`Action.kind` splits the actions into *inputs* (calls of the application, messages of the remote peer, configuration
changes by negotiation), *task* steps (a step of a task / thread / coroutine the connection started) and pure
observations.  `guaranteed` marks the task steps that need no help from the environment.

* `close_terminates`  every task step in a reachable closed state strictly lowers the measure `mu`
  (`close_run_bounded`: a run of n task steps needs `n ≤ mu`; `close_input_bound`: an input after `close()` adds at most 1).
* `no_stuck`          a reachable closed state in which no guaranteed step is enabled is final — in particular `stop()`
  never waits for the `started` event of a task that was never scheduled, nor for `exited` of a task nobody cancelled.
* `after_close`       in a final state signalling / ICE / connection state are `closed`, every data channel is closed, every
  task and decoder thread has finished, received tracks have their end marker, no listener is left, no close() is pending.
* `close_idempotent`  a further `close()` only adds a waiter, which returns without touching anything.
* round 2: `close_stops_all_transports_present_at_snapshot`, `cleanup_stops_what_it_discards`, `cleanup_disjoint_from_snapshot`,
  `final_transports`, `no_stuck_cleanups`, `tset_spec`; `live_set_iteration_can_crash` (the variant that walks the live sets).

What is NOT proved (partial by nature, see ASSUMPTIONS in harness/props/C19.py): that the Python code implements this
protocol (checked by trace acceptance on real connections), that cancellations are delivered and threads joined in finite
real time, the FIFO fact behind the `connClosed` guard. -/
namespace Aiortc.Props.C19
open Aiortc.Model.Close Aiortc.Lemmas.Close

/-- states reachable from a fresh connection by any sequence of enabled actions -/
inductive Reach : State → Prop
  | init : Reach State.init
  | step {s s' : State} {a : Action} : Reach s → s.step a = some s' → Reach s'

/-- the invariant of `Lemmas/CloseInv.lean` holds in every reachable state -/
theorem inv_reachable {s : State} (h : Reach s) : Inv s := by
  induction h with
  | init => exact inv_init
  | step _ hs ih => exact inv_step ih hs

/-- the close latch is never released -/
theorem closed_stable {s s' : State} {a : Action} (hc : s.closed = true) (h : s.step a = some s') : s'.closed = true := by
  have hI : ∀ {l : CLabel} {s'' : State}, s.closeNext = some (l, s'') → s''.closed = true := by
    intro l s'' hn
    unfold State.closeNext at hn
    repeat' split at hn
    all_goals (try (simp at hn; done))
    all_goals (simp only [Option.some.injEq, Prod.mk.injEq] at hn; obtain ⟨-, rfl⟩ := hn)
    all_goals simp [State.setTrx, State.setTpt, State.pop, hc]
  cases a <;> simp only [State.step] at h
  case close l =>
    split at h
    · rename_i hn; split at h
      · injection h with h; subst h; exact hI hn
      · simp at h
    · simp at h
  case trx i a =>
    split at h
    · cases a
      all_goals (repeat' split at h)
      all_goals (try (simp at h; done))
      all_goals (simp only [Option.map_eq_some_iff] at h; obtain ⟨_, _, rfl⟩ := h; simp [State.setTrx, hc])
    · simp at h
  case tpt k a =>
    split at h
    · cases a
      all_goals (repeat' split at h)
      all_goals (try (simp at h; done))
      all_goals (simp only [Option.map_eq_some_iff] at h; obtain ⟨_, _, rfl⟩ := h
                 simp only [State.setTpt, State.autoTrigger, State.syncSet]
                 (repeat' split) <;> simp [hc])
    · simp at h
  all_goals (repeat' split at h)
  all_goals (try (simp at h; done))
  all_goals (injection h with h; subst h; simp [hc])

/-- **Clause 1 (termination).**  After `close()` every step of a task, thread or coroutine of the connection strictly lowers
the measure `mu` (4 per outstanding `stop()` call minus its progress, one unit per step each task still has to take). -/
theorem close_terminates {s s' : State} {a : Action} (hr : Reach s) (hc : s.closed = true) (hk : a.kind = .task)
    (h : s.step a = some s') : mu s' < mu s :=
  step_mu (inv_reachable hr).conns hc hk h

/-- a run of task steps after `close()` is no longer than the measure of the state it starts from -/
theorem close_run_bounded {s s' : State} (acts : List Action) (hr : Reach s) (hc : s.closed = true)
    (hk : ∀ a ∈ acts, a.kind = .task) (h : s.run acts = some s') : acts.length + mu s' ≤ mu s := by
  induction acts generalizing s with
  | nil => simp [State.run] at h; subst h; simp
  | cons a rest ih =>
    simp only [State.run] at h
    split at h
    · rename_i s1 hs1
      have h1 := close_terminates hr hc (hk a (by simp)) hs1
      have h2 := ih (Reach.step hr hs1) (closed_stable hc hs1) (fun b hb => hk b (by simp [hb])) h
      simp only [List.length_cons]; omega
    · simp at h

/-- inputs (application calls, remote messages) arriving after `close()` add at most one step: the return of a further
`close()` call -/
theorem close_input_bound {s s' : State} {a : Action} (hc : s.closed = true) (hk : a.kind = .input)
    (h : s.step a = some s') : mu s' ≤ mu s + 1 := by
  cases a with
  | trx i a =>
    cases a with
    | cancel w =>
      simp only [State.step] at h
      split at h
      · rename_i t ht
        simp only [Option.map_eq_some_iff] at h
        obtain ⟨t', ht', rfl⟩ := h
        have ht' : trxStep false t (.cancel w) = some t' := ht'
        have hW := trxStep_W ht'
        have := sumBy_set trxW s.trxs i t t' ht
        simp only [mu, State.setTrx]; simp only at hW; omega
      · simp at h
    | mkTrack | assign k =>
      simp only [State.step] at h
      (repeat' split at h) <;> simp_all
    | sndStart | rcvStart | first w | exit w | decoderStop => simp [Action.kind] at hk
  | tpt k a => cases a <;> simp [Action.kind] at hk
  | closeCall b =>
    cases b
    · simp [State.step, hc] at h; subst h; simp only [mu]; omega
    · simp [Action.kind] at hk
  | negEnd =>
    simp only [State.step] at h
    split at h <;> simp at h; subst h; simp [mu]
  | chanNew =>
    simp only [State.step] at h
    split at h
    · split at h
      · injection h with h; subst h; simp [mu, sctpW, *]
      · simp at h
    · simp at h
  | chanEv j c =>
    simp only [State.step] at h
    split at h
    · split at h
      · split at h
        · injection h with h; subst h; simp [mu, sctpW, *]
        · simp at h
      · simp at h
    · simp at h
  | assignSctp k =>
    simp only [State.step] at h
    (repeat' split at h) <;> simp_all
  | negBegin | negSpawn | addTpt | addTrx k | addSctp k => simp [State.step, hc] at h
  | connFirst c | connExit c | sctpStart | close l | waiterReturn | emit | obsCancelConn c | obsAutoSpawn =>
    simp [Action.kind] at hk

/-- observations never change the state -/
theorem observe_no_change {s s' : State} {a : Action} (hk : a.kind = .observe) (h : s.step a = some s') : s' = s := by
  cases a with
  | emit | obsCancelConn c | obsAutoSpawn =>
    simp only [State.step] at h
    (repeat' split at h) <;> (try (simp at h; done)) <;> (injection h with h; exact h.symm)
  | closeCall b => cases b <;> simp [Action.kind] at hk
  | trx i a => cases a <;> simp [Action.kind] at hk
  | tpt k a => cases a <;> simp [Action.kind] at hk
  | negBegin | negSpawn | negEnd | addTpt | addTrx k | addSctp k | assignSctp k | chanNew | chanEv j c | connFirst c
    | connExit c | sctpStart | close l | waiterReturn => simp [Action.kind] at hk

/-- **Clause 1 (no stuck state).**  A reachable closed state in which no guaranteed step is enabled is final: the close
coroutine is through, every task / thread has finished.  (Contrapositive: in every non-final reachable closed state some
step is enabled that needs no help from the environment — `stop()` never waits for something nobody will deliver.) -/
theorem no_stuck {s : State} (hr : Reach s) (hc : s.closed = true) (hq : Quiescent s) : Final s :=
  final_of_quiescent (inv_reachable hr) hc hq

/-- what the property promises about the state after `close()` -/
structure AfterClose (s : State) : Prop where
  signaling : s.sigClosed = true
  ice : s.iceClosed = true
  connection : s.connClosed = true
  channels : ∀ sc, s.sctp = some sc → sc.closed = true ∧ ∀ c ∈ sc.chans, c = Chan.closed
  connects : ∀ c ∈ s.conns, c.pc = .done
  tasks : ∀ (i : Nat) (t : Trx), s.trxs[i]? = some t → t.rtp.quiet = true ∧ t.srtcp.quiet = true ∧ t.rrtcp.quiet = true
  threads : ∀ (i : Nat) (t : Trx), s.trxs[i]? = some t → t.decoder ≠ .running
  tracks : ∀ (i : Nat) (t : Trx), s.trxs[i]? = some t → t.hasTrack = true → t.trackEnd = true
  transports : ∀ (k : Nat) (t : Tpt), s.tpts[k]? = some t → t.pump ≠ .live ∧ (t.monitor = .none ∨ t.monitor = .exited)
  listeners : s.listeners = false
  returned : s.closeDone = true ∧ s.waiters = 0 ∧ s.auto ≠ .queued

/-- **Clause 3.**  In a final state signalling, ICE and connection state are `closed`, every channel is closed, every task and
the decoder threads have finished, received tracks have their end marker, no listener is left (no further event can reach
the application), every `close()` call has returned. -/
theorem after_close {s : State} (hr : Reach s) (hf : Final s) : AfterClose s := by
  have hI := inv_reachable hr
  obtain ⟨hcl, -, hice, hconn, hlis⟩ := hI.dne hf.done
  refine ⟨hI.sig hcl, hice, hconn, fun sc hs => hf.sctp sc hs, hf.conns, ?_, ?_, ?_, ?_, hlis, hf.done, hf.waiters, hf.auto⟩
  · intro i t ht
    obtain ⟨h1, h2⟩ := hf.trxs i t ht
    simp only [Trx.sndQuiet, Bool.and_eq_true] at h2
    exact ⟨h2.1, h2.2, h1.1⟩
  · intro i t ht; exact (hf.trxs i t ht).1.2.1
  · intro i t ht; exact (hf.trxs i t ht).1.2.2
  · intro k t ht
    obtain ⟨h1, h2⟩ := hf.tpts k t ht
    refine ⟨h1, ?_⟩
    simpa [Tpt.monQuiet] using h2

/-- from any reachable closed state, once no guaranteed step is left the promises of the property hold -/
theorem close_complete {s : State} (hr : Reach s) (hc : s.closed = true) (hq : Quiescent s) : AfterClose s :=
  after_close hr (no_stuck hr hc hq)

/-- **Clause 2 (idempotence).**  Calling `close()` on a closed connection changes nothing but the number of pending callers … -/
theorem close_idempotent {s : State} (hc : s.closed = true) :
    s.step (.closeCall false) = some { s with waiters := s.waiters + 1 } := by
  simp [State.step, hc]

/-- … and once the first `close()` is through, the further call returns at once, leaving the state exactly as it was -/
theorem close_idempotent_returns {s : State} (hc : s.closed = true) (hd : s.closeDone = true) :
    (s.step (.closeCall false)).bind (·.step .waiterReturn) = some s := by
  cases s
  simp_all [State.step]

/-- a negotiation call cannot start anything on a closed connection: `negBegin` and `negSpawn` are not enabled, and no
`__connect` task is live -/
theorem closed_starts_nothing {s : State} (hr : Reach s) (hc : s.closed = true) :
    s.step .negBegin = none ∧ s.step .negSpawn = none ∧ s.liveConn = false :=
  ⟨by simp [State.step, hc], by simp [State.step, hc], liveConn_false (inv_reachable hr).conns hc⟩

/-! ## concurrent mutators of the transport sets (round 2)

Negotiation calls are tasks of the same system: the BUNDLE clean-up of a `setRemoteDescription()` in flight (`nstep`: stop the
unused transport, then discard it from `tset`) and an application `RTCRtpTransceiver.stop()` (`cancel`) go on while `close()`
is suspended.  `close_terminates`, `no_stuck`, `after_close` above are stated over ALL schedules of this system, so they cover
these interleavings; `Final` now also says that every clean-up has run to its end.  What follows says why it matters that
`close()` works on a snapshot (the transports reachable from the transceivers and SCTP at the latch). -/

/-- the model's `tset` is the set `__dtlsTransports` / `__iceTransports`: exactly the transports not yet discarded, each once -/
theorem tset_spec {s : State} (hr : Reach s) :
    s.tset.Nodup ∧ ∀ k, k ∈ s.tset ↔ ∃ t, s.tpts[k]? = some t ∧ t.inSet = true :=
  ⟨(inv_reachable hr).tsetNodup, (inv_reachable hr).tsetOk⟩

/-- **the snapshot covers the set.**  Every transport that is in the connection's transport set when `close()` takes its
snapshot either carries an m-section - then both its `stop()` calls are in close()'s program, whatever a concurrent call
does to the set afterwards - or carries none and was never started (nothing to stop; if a `setRemoteDescription()` is
cleaning it up, that call stops it: `cleanup_stops_what_it_discards`, `final_transports`). -/
theorem close_stops_all_transports_present_at_snapshot {s s' : State} {b : Bool} {k : Nat} {t : Tpt}
    (hr : Reach s) (hc : s.closed = false) (h : s.step (.closeCall b) = some s') (_hk : k ∈ s.tset)
    (ht : s.tpts[k]? = some t) :
    (s.refd k = true ∧ Instr.stopDtls k ∈ s'.prog ∧ Instr.stopIce k ∈ s'.prog)
    ∨ (s.refd k = false ∧ t.unstarted = true) := by
  have hI := inv_reachable hr
  have hprog : s'.prog = s.program := by
    simp only [State.step] at h
    split at h
    · simp at h
    · cases b <;> simp [hc] at h <;> subst h <;> rfl
  cases hrk : s.refd k with
  | true =>
    left
    rw [hprog]
    exact ⟨rfl, (mem_program_tpt hrk).1, (mem_program_tpt hrk).2⟩
  | false =>
    right
    refine ⟨rfl, ?_⟩
    cases hu : t.unstarted with
    | true => rfl
    | false => have := hI.refs hc k t ht hu; rw [hrk] at this; simp at this

/-- a transport leaves the set only at the end of a clean-up, and that clean-up has stopped it -/
theorem cleanup_stops_what_it_discards {s : State} {k : Nat} {t : Tpt} (hr : Reach s) (ht : s.tpts[k]? = some t)
    (hd : t.inSet = false) : t.ice = .closed ∧ t.connClosed = true ∧ t.unstarted = true ∧ k ∉ s.tset := by
  have hI := inv_reachable hr
  obtain ⟨n1, n2, n3, n4, n5, n6⟩ := hI.wfN k t ht
  have h4 := n4.mp hd
  refine ⟨n2 (by omega), n3 (by omega), n5 (by omega), ?_⟩
  intro hm
  obtain ⟨t', ht', hin⟩ := (hI.tsetOk k).mp hm
  rw [ht] at ht'; injection ht' with ht'; subst ht'
  rw [hd] at hin; simp at hin

/-- a transport under clean-up is never one of those `close()` stops (no m-section uses it), so the two never touch the same
transport; and no m-section can be moved onto it (`addTrx`, `assign` need a free transport) -/
theorem cleanup_disjoint_from_snapshot {s : State} {k : Nat} {t : Tpt} (hr : Reach s) (ht : s.tpts[k]? = some t)
    (hn : 1 ≤ t.nstop) : s.refd k = false ∧ s.free k = false := by
  refine ⟨(inv_reachable hr).unref k t ht hn, ?_⟩
  simp [State.free, ht]; omega

/-- **every transport is stopped by somebody.**  In a final state every transport is stopped (ICE closed, pump and monitor
finished) - by `close()` if it carried an m-section at the snapshot, by the negotiation call that discarded it otherwise -
unless no m-section uses it and no clean-up ever began on it. -/
theorem final_transports {s : State} {k : Nat} {t : Tpt} (hr : Reach s) (hf : Final s) (ht : s.tpts[k]? = some t) :
    (t.ice = .closed ∧ t.pump ≠ .live ∧ t.monQuiet = true) ∨ (s.refd k = false ∧ t.nstop = 0) := by
  have hI := inv_reachable hr
  have hcl := (hI.dne hf.done).1
  obtain ⟨hp, hm⟩ := hf.tpts k t ht
  cases hrk : s.refd k with
  | true =>
    left
    have := hI.coverI hcl k t ht hrk
    rw [hf.prog] at this
    simp at this
    exact ⟨this, hp, hm⟩
  | false =>
    rcases hf.cleanups k t ht with h0 | h4
    · exact Or.inr ⟨rfl, h0⟩
    · left
      exact ⟨(hI.wfN k t ht).2.1 (by omega), hp, hm⟩

/-- `Final` with the clean-ups: from any reachable closed state with no guaranteed step left (the steps of a clean-up in
progress are guaranteed ones) every clean-up has reached its end -/
theorem no_stuck_cleanups {s : State} (hr : Reach s) (hc : s.closed = true) (hq : Quiescent s) :
    ∀ (k : Nat) (t : Tpt), s.tpts[k]? = some t → t.nstop = 0 ∨ t.nstop = 4 :=
  (no_stuck hr hc hq).cleanups

/-! ### the variant that iterates over the live sets (seeded change C19-r2) -/

/-- in the variant, the schedule "setRemoteDescription(answer) discards the bundled-away transport while close() is suspended
in `await iceTransport.stop()`" makes the set iterator raise: close() dies -/
theorem live_set_iteration_can_crash :
    ((LiveIter.init.run (bundleRaceSetup ++ bundleRaceCloseA ++ bundleRaceDiscard ++ bundleRaceCloseB)).map
      fun v => (v.crashed, v.s.closed, v.s.closeDone)) = some (true, true, false) := by rfl

/-- once it has crashed, no step of close() is enabled any more … -/
theorem crashed_close_is_dead (v : LiveIter) (hc : v.crashed = true) (l : CLabel) : v.step (.close l) = none := by
  simp [LiveIter.step, hc]

/-- … so a further close() waits for ever: it is accepted (`waiters + 1`) but its return needs `closeDone` -/
theorem crashed_second_close_blocks :
    ((LiveIter.init.run (bundleRaceSetup ++ bundleRaceCloseA ++ bundleRaceDiscard ++ bundleRaceCloseB
        ++ [.closeCall false])).map fun v => (v.s.waiters, v.s.closeDone, (v.step .waiterReturn).isSome))
      = some (1, false, false) := by rfl

/-- the real close() under the very same schedule completes: its program was laid out from the transceivers (transport 0
twice, transport 1 not at all), the discard does not concern it -/
theorem snapshot_survives_the_same_schedule :
    ((State.init.run (bundleRaceSetup ++ snapshotClose)).map
      fun s => (s.closeDone, s.tset, s.tpts.map (fun t => (t.ice, t.inSet, t.nstop)))) =
      some (true, [0], [(.closed, true, 0), (.closed, false, 4)]) := by rfl


/-! ## non-vacuity: concrete runs of the model (kept small: they are evaluated by the kernel) -/

/-- a data channel on one transport, connected; `close()`; the tasks take their steps in between -/
def demoSetup : List Action :=
  [.addTpt, .addSctp 0, .chanNew, .negBegin, .negSpawn, .negEnd, .connFirst 0,
   .tpt 0 .iceStart, .tpt 0 .monFirst, .tpt 0 (.iceDone true), .tpt 0 .dtlsStart, .tpt 0 .dtlsUp, .sctpStart, .connExit 0,
   .chanEv 0 .opened]

def demoClose : List Action :=
  [.close .enterSctp, .close .leaveSctp, .close (.enterDtls 0), .close (.cancelPump 0), .close (.leaveDtls 0),
   .close (.enterIce 0), .tpt 0 .pumpExit, .close (.connClosed 0), .tpt 0 .monExit, .close (.leaveIce 0),
   .close .leaveClose]

/-- the run is accepted, and ends with every promise of the property fulfilled -/
example : ((State.init.run (demoSetup ++ [.closeCall false] ++ demoClose)).map fun s =>
    (s.closeDone, s.sigClosed, s.iceClosed, s.connClosed, s.listeners, s.waiters,
     s.tpts.map (fun t => (t.pump, t.monitor)), s.sctp.map (·.chans)))
  = some (true, true, true, true, false, 0, [(.exited, .exited)], some [.closed]) := by rfl

/-- hypotheses of `close_run_bounded` are satisfiable: `demoClose` consists of task steps only -/
example : ∀ a ∈ demoClose, a.kind = .task := by decide

/-- the receiver handshake on one transceiver that was started: `stop()` waits for `started`, cancels, waits for `exited` -/
example : ((State.init.run
    [.addTpt, .addTrx 0, .trx 0 .mkTrack, .negBegin, .negSpawn, .negEnd, .connFirst 0, .trx 0 .rcvStart, .connExit 0,
     .closeCall false, .close (.enterRcv 0), .trx 0 (.first .rrtcp), .close (.cancelRrtcp 0), .trx 0 (.exit .rrtcp),
     .close (.leaveRcv 0)]).map fun s => s.trxs.map fun t => (t.rrtcp.pc, t.decoder, t.trackEnd))
  = some [(.exited, .exited, true)] := by rfl

/-- … and the cancel is NOT enabled before the task has had its first step -/
example : (State.init.run
    [.addTpt, .addTrx 0, .trx 0 .mkTrack, .negBegin, .negSpawn, .negEnd, .connFirst 0, .trx 0 .rcvStart, .connExit 0,
     .closeCall false, .close (.enterRcv 0), .close (.cancelRrtcp 0)]) = none := by decide

/-- the handshake matters: a `_run_*` task cancelled before its first step never sets its `exited` event (`dead`) — the model
knows this failure, the invariant excludes it because `stop()` waits for `started` first -/
example : (Run.first { pc := .queued, cancelReq := true }) = some { pc := .dead, cancelReq := true } := by decide

/-- a second close() while the first is still running waits (`waiters = 1`) -/
example : ((State.init.run [.addTpt, .addSctp 0, .closeCall false, .close .enterSctp, .closeCall false]).map
    fun s => (s.waiters, s.prog.length)) = some (1, 3) := by rfl

/-- on a closed connection a negotiation call in flight cannot spawn `__connect` any more -/
example : (State.init.run [.addTpt, .negBegin, .closeCall false, .negSpawn]) = none := by decide

end Aiortc.Props.C19
