import Aiortc.Drv.Serial
/-! Model driver: one request per line on stdin (`<component> <op> <args…>`), one reply per line. -/
open Aiortc.Drv

def dispatch (line : String) : String :=
  match (line.trimAscii.toString.splitOn " ").filter (· ≠ "") with
  | "serial" :: rest => Serial.handleTop rest
  | _ => "bad-component"

partial def loop (h : IO.FS.Stream) (out : IO.FS.Stream) : IO Unit := do
  let line ← h.getLine
  if line.isEmpty then return ()
  out.putStrLn (dispatch line)
  loop h out

def main : IO Unit := do
  let out ← IO.getStdout
  loop (← IO.getStdin) out
  out.flush
