import os, sys, struct, time
sys.path.insert(0, os.path.dirname(os.path.dirname(os.path.abspath(__file__))))
import os
os.environ.setdefault("VERIF_REPO", "/tmp/r-C05c")
from harness import sctp_sim as sim, sctp_hostile as H, sctp_world as W

def connect():
    w = W.World(dict(tagA=111, tagB=222, tsnA=1000, tsnB=5000, ops=[]))
    w.apply(["start", "A"]); w.apply(["start", "B"])
    w.heal(2000)
    return sim.install(), w

def data_chunk(tsn, sid, ssn, ppid, flags, ud):
    return H.raw_chunk(0, flags, struct.pack("!LHHL", tsn, sid, ssn, ppid) + ud)

m, w = connect()
B = w.ep["B"]; t = B.t
import aiortc
print("aiortc from", aiortc.__file__)
par = t._data_channel_id
print("state", t.state, "local parity id start", par)
tag = t._local_verification_tag
pk = lambda body: H.crc_packet(m, 5000, 5000, tag, body)
X = (t._last_received_tsn + 1) % 2**32
OPEN = struct.pack("!BBHLHH", 3, 0, 0, 0, 0, 0)
t0 = time.time()
n = 0
for k in range(32768):
    sid = par + 2 * k
    exc = B.rx(pk(data_chunk((X + n) % 2**32, sid, 0, 50, 7, OPEN))); n += 1
    if exc or B.crashes:
        print("unexpected", k, exc, B.crashes); break
print("opened", len(t._data_channels), "in", round(time.time() - t0, 1), "s; crashes so far", B.crashes,
      "dcq", len(t._data_channel_queue), "outq", len(t._outbound_queue))
# the application now creates ONE channel
print("create ->", B.create(label="x"))
while B.tasks:
    B.run_task()
print("after tasks: crashes", B.crashes, "ids>65535:", [i for i in t._data_channels if i > 65535][:3],
      "dcq", len(t._data_channel_queue), "outq", len(t._outbound_queue))
# peer acknowledges everything: SACK with the highest TSN B has sent
cum = (t._local_tsn - 1) % 2**32
sack = H.raw_chunk(3, 0, struct.pack("!LLHH", cum, 1048576, 0, 0))
for i in range(50):
    exc = B.rx(pk(sack))
    if B.crashes:
        break
    cum = (t._local_tsn - 1) % 2**32
    sack = H.raw_chunk(3, 0, struct.pack("!LLHH", cum, 1048576, 0, 0))
print("after SACKs: rx exc", exc, "crashes", B.crashes, "ids>65535:", [i for i in t._data_channels if i > 65535][:3])
