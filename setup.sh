#!/bin/sh
# setup_cmd: regenerate Gen + registries from /repo's working tree, then build, per property, its
# theorem module(s) and its model-driver executable.
cd "$(dirname "$0")" || exit 2
/venv/bin/python -m harness.gen || exit 1
targets=$(/venv/bin/python - <<'PY'
import importlib, os
out = []
d = os.path.join("harness", "props")
for f in sorted(os.listdir(d)):
    if f.startswith("C") and f.endswith(".py"):
        m = importlib.import_module("harness.props." + f[:-3])
        out += list(getattr(m, "LEAN_TARGETS", ["Aiortc.Props." + f[:-3]]))
        if getattr(m, "DRIVERS", []):
            out.append("drv_" + f[:-3])
print(" ".join(out))
PY
)
cd lean || exit 2
lake build Aiortc $targets
