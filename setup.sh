#!/bin/sh
# setup_cmd: regenerate Gen + registries from /repo's working tree, build every Lean module
# (models, theorems) and one model-driver executable per property.
cd "$(dirname "$0")" || exit 2
/venv/bin/python -m harness.gen || exit 1
cd lean || exit 2
lake build Aiortc || exit 1
for f in Drivers/C*.lean; do
  p=$(basename "$f" .lean)
  lake build "drv_$p" || exit 1
done
