#!/bin/sh
# setup_cmd: regenerate Gen from /repo's working tree, build every Props module and the model driver.
cd "$(dirname "$0")" || exit 2
/venv/bin/python -m harness.gen || exit 1
cd lean && lake build Aiortc modeldrv
